#!/usr/bin/env python3
"""Apply every confirmed seeded change under /verif/seeded/<id>/ to /repo in turn, run the quick
check(s) of the property it breaks, undo it, and record the outcome in seeded/<id>/meta.json.

usage: run_seeded.py [seed_id ...]        (default: all)
The patches are never committed to /repo; the tree is restored after each one.
"""
import json, os, subprocess, sys, re, time

ROOT = '/verif/seeded'
cfg = json.load(open('/verif/contracts/properties.json'))
manifest = json.load(open('/verif/MANIFEST.json'))
claimed = {c['property_id'] for c in manifest['checks']}
# extra properties whose checks are also expected to notice a seed (the mechanism is shared)
ALSO = json.load(open('/verif/seeded/also.json')) if os.path.exists('/verif/seeded/also.json') else {}

def sh(cmd, **kw):
    return subprocess.run(cmd, shell=True, capture_output=True, text=True, **kw)

import tempfile, atexit
WT = tempfile.mkdtemp(prefix='seedrun.', dir='/tmp')
sh(f'git -C /repo worktree add --detach -q {WT} HEAD')
atexit.register(lambda: sh(f'git -C /repo worktree remove --force {WT}'))
ids = sys.argv[1:] or sorted(d for d in os.listdir(ROOT) if os.path.isdir(os.path.join(ROOT, d)))
summary = []
for sid in ids:
    d = os.path.join(ROOT, sid)
    patch = os.path.join(d, 'patch.diff')
    if not os.path.exists(patch):
        continue
    prop = sid.split('_')[0]
    props = [prop] + ALSO.get(sid, [])
    meta_path = os.path.join(d, 'meta.json')
    meta = json.load(open(meta_path)) if os.path.exists(meta_path) else {}
    meta.setdefault('seed_id', sid)
    meta['breaks_property'] = prop
    notes = open(os.path.join(d, 'notes.md')).read() if os.path.exists(os.path.join(d, 'notes.md')) else ''
    meta.setdefault('needs_to_manifest', '')
    meta['confirmed_by'] = 'selftest/confirm_seed.sh in a scratch worktree: go build ./... ok with the patch; existing tests of the touched packages pass with the patch; the demonstration test (TestSeeded*) fails with the patch and passes without it'
    r = sh(f'git -C {WT} apply {patch}')
    if r.returncode != 0:
        meta['check_result'] = 'patch does not apply to the current tree: ' + r.stderr.strip()[:300]
        json.dump(meta, open(meta_path, 'w'), indent=1)
        summary.append((sid, 'NOAPPLY'))
        continue
    results = {}
    try:
        for p in props:
            if p not in claimed:
                results[p] = {'status': 'property not claimed (no check)'}
                continue
            t0 = time.time()
            r = sh(f'VERIF_REPO={WT} /verif/check {p} quick -no-evidence')
            viol = re.findall(r'VIOLATION property=\S+ replay=\S+ obligation=(\S+)( no-failing-input-found)?', r.stdout)
            results[p] = {'exit': r.returncode, 'wall_s': round(time.time() - t0, 1),
                          'violated_obligations': [v[0] for v in viol],
                          'with_failing_input': [v[0] for v in viol if not v[1]],
                          'tail': r.stdout.strip().splitlines()[-1:] }
    finally:
        sh(f'git -C {WT} apply -R {patch}')
        sh(f'git -C {WT} checkout -- .')
    detected = any(v.get('exit') == 1 and v.get('violated_obligations') for v in results.values())
    meta['checks_run'] = results
    meta['detected'] = detected
    json.dump(meta, open(meta_path, 'w'), indent=1)
    summary.append((sid, 'DETECTED' if detected else 'MISSED'))
    print(sid, 'DETECTED' if detected else 'MISSED', {p: (v.get('exit'), len(v.get('violated_obligations', []))) for p, v in results.items()})
print(summary)
