#!/bin/sh
# selftest/refresh_all.sh: run every claimed check in /verif against /repo, rewriting evidence and the
# ledger entry of each property that passes (used after engine or contract changes).
cd "$(dirname "$0")/.."
for p in $(python3 -c "import json;print(' '.join(sorted(json.load(open('contracts/manifest_meta.json'))['claimed'])))"); do
  ./check $p quick -write-ledger 2>&1 | grep -E "^(VIOLATION|KNOWN|UNDECIDED|property=)" | cut -c1-260
done
