#!/bin/sh
# selftest/with_patch.sh <patch> <property>... : apply a patch to /repo, run the quick checks, undo the patch.
# Used only for manual validation of seeded changes; evidence files are not rewritten (-no-evidence).
P="$(realpath "$1")"; shift
git -C /repo apply "$P" || { echo "patch does not apply"; exit 3; }
rc=0
for prop in "$@"; do /verif/check "$prop" quick -no-evidence || rc=$?; done
git -C /repo apply -R "$P" || git -C /repo checkout -- .
exit $rc
