#!/bin/sh
# mk.sh Cxx tag : create a scratch worktree for a mutant agent, without the contract files
id=$1; tag=${2:-a}
d=/tmp/seedwork/wt_${id}_${tag}
git -C /repo worktree add --detach -q $d HEAD
find $d -name 'zz_contracts_verif.go' -delete
mkdir -p /tmp/seedwork/out_${id}_${tag}
python3 - "$id" <<'PY' > /tmp/seedwork/prop_${id}.txt
import json,sys
for l in open('/verif/properties.jsonl'):
    p=json.loads(l)
    if p['id']==sys.argv[1]:
        print("Property",p['id'],"-",p['title']); print(); print("Statement:",p['statement']); print(); print("Quantified over:",p['quantifier']['text']); print(); print("Anchored in files:",", ".join(p['anchors']['files']))
PY
echo $d
