#!/bin/sh
id=$1; tag=${2:-a}
cat <<P
You are helping test a verification effort for the Go project uber/kraken (a P2P Docker registry). Your job: write ONE realistic, subtle change to uber/kraken that BREAKS the semantic property below, while the code still compiles and the project's existing tests still pass, and give a demonstration (a Go test) that fails with your change and passes without it.

$(cat /tmp/seedwork/prop_${id}.txt)

Work ONLY inside your own scratch git worktree: /tmp/seedwork/wt_${id}_${tag}  (a checkout of the repository; some files named zz_contracts_verif.go show as deleted in git status there - ignore that, never restore or mention them). Never touch /repo or /verif, do not read anything under /verif. Write your deliverables to /tmp/seedwork/out_${id}_${tag}/.

Requirements for the change:
- It must be the kind of change a maintainer could plausibly make (refactor gone wrong, off-by-one, swapped condition, dropped check, wrong variable, missing unlock/cleanup, reordered steps), small (ideally < 15 changed lines), in non-test production code under the anchored files or their direct callees/callers.
- It must NOT be exposed by ordinary use or by the existing unit tests: it should need something specific to manifest - a particular interleaving, a crash or fault at a particular point, a multi-step sequence of operations, an unusual input (boundary size, empty, negative, huge, duplicate), or two cooperating sites that each look fine alone.
- The repository must still build, and the existing tests of every package you touched (and packages that import it, as far as is practical) must still pass with your change applied.
- Do not change test files, mocks or generated code as part of the change itself.

Deliverables in /tmp/seedwork/out_${id}_${tag}/:
1. patch.diff  - produced with: cd /tmp/seedwork/wt_${id}_${tag} && git diff HEAD -- <the production files you changed> > /tmp/seedwork/out_${id}_${tag}/patch.diff   (only your production-code change; it must apply with git apply to a clean checkout).
2. demo_test.go (or several files) - a NEW Go test file (package-internal or external test) plus a line at its top, in a comment, saying the repository-relative directory it must be placed in (e.g. "// place in: lib/store/base"). The test must FAIL with the patch applied and PASS without it. Name the test function(s) TestSeeded...
3. notes.md - which part of the property is broken, what exactly is needed for it to manifest, the exact commands you ran (build, existing tests, demo with and without the patch) and their outcomes.

Go toolchain (offline sandbox, no network). Before every go command run:
  export PATH=/root/go/pkg/mod/golang.org/toolchain@v0.0.1-go1.24.0.linux-amd64/bin:\$PATH GOTOOLCHAIN=local GOFLAGS=-mod=mod GOPROXY=off GOSUMDB=off
Run go commands from inside your worktree, e.g.  go build ./... && go test -vet=off -count=1 ./lib/store/...   If go rewrites go.mod/go.sum, restore them with git checkout go.mod go.sum (they must not be part of patch.diff).
Confirm for yourself: (a) go build ./... succeeds with the patch; (b) existing tests of the affected packages pass with the patch; (c) the demo test fails with the patch; (d) the demo test passes when the patch is reverted (git stash / git apply -R). Leave the worktree with your patch applied and the demo test file in place when you finish. Report briefly what you did.
P
