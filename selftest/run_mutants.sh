#!/bin/sh
# selftest/run_mutants.sh <property>: must-fail corpus. Each patch under selftest/mutants/<property>/
# (reverted fix commits and hand-written property-breaking edits) is applied to a scratch worktree of
# /repo; the property's quick check must report a violation there. Exit 0 iff every mutant trips.
P="$1"
HERE="$(cd "$(dirname "$0")/.." && pwd)"
[ -d "$HERE/selftest/mutants/$P" ] || exit 0
WT="$(mktemp -d /tmp/mutrun.XXXXXX)"
git -C /repo worktree add --detach -q "$WT" HEAD || exit 2
trap 'git -C /repo worktree remove --force "$WT" 2>/dev/null; rm -rf "$WT"' EXIT INT TERM
rc=0
for m in "$HERE"/selftest/mutants/"$P"/*.patch; do
  [ -f "$m" ] || continue
  if ! git -C "$WT" apply "$m" 2>/dev/null; then echo "MUTANT $(basename "$m") does not apply (skipped)"; continue; fi
  out="$(VERIF_REPO="$WT" "$HERE/check" "$P" quick -no-evidence 2>&1)"
  if echo "$out" | grep -q "^VIOLATION"; then
    echo "MUTANT $(basename "$m") tripped: $(echo "$out" | grep -c '^VIOLATION') obligation(s)"
  else
    echo "MUTANT $(basename "$m") NOT DETECTED"; rc=3
  fi
  git -C "$WT" apply -R "$m"
done
exit $rc
