#!/bin/bash
# confirm_seed.sh <out_dir> <seed_id>: confirm a seeded change in a scratch worktree and file it under /verif/seeded/<seed_id>/
# Checks: builds with patch; existing tests of touched packages pass with patch; demo fails with patch; demo passes without.
set -u
OUT="$1"; SID="$2"
. /verif/env.sh
WT=$(mktemp -d /tmp/seedconfirm.XXXXXX)
git -C /repo worktree add --detach -q "$WT" HEAD || exit 3
cleanup() { git -C /repo worktree remove --force "$WT" 2>/dev/null; rm -rf "$WT"; }
trap cleanup EXIT
cd "$WT"
LOG=$(mktemp)
git apply "$OUT/patch.diff" || { echo "PATCH-DOES-NOT-APPLY"; exit 4; }
PKGS=$(git diff --name-only | xargs -n1 dirname | sort -u | sed 's|^|./|' | tr '\n' ' ')
# demo test files: "// place in: dir"
DEMOS=""
for f in "$OUT"/*_test.go "$OUT"/demo*.go; do
  [ -f "$f" ] || continue
  d=$(grep -m1 -o 'place in: *[^ ]*' "$f" | sed 's/place in: *//')
  [ -n "$d" ] || continue
  b=$(basename "$f"); case "$b" in *_test.go) ;; *) b="${b%.go}_test.go";; esac
  cp "$f" "$WT/$d/zz_seeded_$b"; DEMOS="$DEMOS ./$d"
done
DEMOS=$(echo $DEMOS | tr ' ' '\n' | sort -u | tr '\n' ' ')
echo "touched: $PKGS demo: $DEMOS"
go build ./... >$LOG 2>&1 && BUILD=ok || BUILD=fail
go test -vet=off -count=1 -run 'TestSeeded' $DEMOS >$LOG.demo_with 2>&1 && DEMO_WITH=pass || DEMO_WITH=fail
# existing tests with the patch (demo files excluded via -skip)
go test -vet=off -count=1 -skip 'TestSeeded' $PKGS $DEMOS >$LOG.existing 2>&1 && EXISTING=pass || EXISTING=fail
git apply -R "$OUT/patch.diff"
go test -vet=off -count=1 -run 'TestSeeded' $DEMOS >$LOG.demo_without 2>&1 && DEMO_WITHOUT=pass || DEMO_WITHOUT=fail
git checkout -q go.mod go.sum 2>/dev/null
echo "build=$BUILD existing_with_patch=$EXISTING demo_with_patch=$DEMO_WITH demo_without_patch=$DEMO_WITHOUT"
if [ "$BUILD" = ok ] && [ "$EXISTING" = pass ] && [ "$DEMO_WITH" = fail ] && [ "$DEMO_WITHOUT" = pass ]; then
  mkdir -p /verif/seeded/$SID
  cp "$OUT/patch.diff" /verif/seeded/$SID/patch.diff
  for f in "$OUT"/*_test.go "$OUT"/demo*.go; do [ -f "$f" ] && cp "$f" /verif/seeded/$SID/; done
  [ -f "$OUT/notes.md" ] && cp "$OUT/notes.md" /verif/seeded/$SID/notes.md
  tail -5 $LOG.demo_with > /verif/seeded/$SID/demo_with_patch.txt
  echo "CONFIRMED $SID (packages: $PKGS)"
else
  echo "NOT-CONFIRMED $SID"; tail -n 20 $LOG.existing $LOG.demo_with $LOG.demo_without | cut -c1-200
fi
rm -f $LOG $LOG.*
