#!/bin/sh
# selftest/run_all.sh [tier]: run every claimed check (no evidence rewrite) and print one line each.
cd "$(dirname "$0")/.."
for p in $(python3 -c "import json;print(' '.join(sorted(json.load(open('contracts/manifest_meta.json'))['claimed'])))"); do
  ./check $p ${1:-quick} -no-evidence 2>&1 | grep -E "^(VIOLATION|KNOWN|property=)" 
done
