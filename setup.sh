#!/bin/sh
# Build the verification-condition generator offline from files on disk.
set -e
cd "$(dirname "$0")"
. ./env.sh
mkdir -p bin
(cd govc && go build -o ../bin/govc .)
