package main

// Callback rule.
//
// A function F whose contract says `callback p` calls its func-typed parameter p zero or more
// times, and those calls are the only way F affects state beyond its own `modifies` clause. Inside
// F, every call of p is checked and assumed against the parameter contract `F@param:p`, which may
// name F's own parameters and is meant to describe ghost bookkeeping only (how many calls, what the
// last one returned): F's postconditions are stated over that bookkeeping.
//
// At a call F(..., C) where C is a closure created by the caller, with its own contract (verified
// like any function) and `invariant J` clauses (assumed at its entry, obligations at its returns):
//
//   1. J holds in the caller's state before the call                     (obligation)
//   2. after F's own modifies are havocked, C's modifies are havocked and J is assumed: this is the
//      state S1 after an arbitrary number of earlier calls of C
//   3. C's preconditions hold in S1 for arbitrary arguments satisfying the preconditions of the
//      parameter contract                                                 (obligation)
//   4. two continuations:
//      A. C was not called at all: what the parameter contract modifies is as before the call;
//      B. C was called at least once: one more application of C's contract from S1 is the last
//         call - its postconditions, J, and the parameter contract's postconditions (the ghost
//         bookkeeping of that last call) are assumed;
//      in both, F's postconditions are then assumed and execution continues.
//
// Not checked (stated in the evidence): that C's real effects are disjoint from the state F's own
// contract talks about, and that the parameter contract promises nothing about real (non-ghost)
// state that C would have to establish.

import (
	"fmt"
	"go/types"

	"golang.org/x/tools/go/ssa"
)

func (c *FnCtx) applyCallbacks(frame *Frame, st *State, in ssa.Instruction, callee *ssa.Function, fc *FuncContract, key string, names []string, args []Val, fenv *SpecEnv, preHeap map[string]string, res Val, finish func(*State, Val)) bool {
	if len(fc.Callbacks) != 1 {
		c.errs = append(c.errs, "callback: exactly one callback parameter is supported in "+key)
		return false
	}
	name := fc.Callbacks[0]
	idx := -1
	for i, n := range names {
		if n == name {
			idx = i
		}
	}
	if idx < 0 || idx >= len(args) {
		c.errs = append(c.errs, "callback: "+key+" has no parameter "+name)
		return false
	}
	mc, ok := c.closures[args[idx].S]
	if !ok {
		c.errs = append(c.errs, "callback: the argument for "+name+" of "+shortKey(key)+" is not a closure created in this function")
		return false
	}
	fn, ok := mc.Fn.(*ssa.Function)
	if !ok {
		return false
	}
	ckey := contractKeyForFunc(fn)
	cfc := c.eng.cs.Funcs[ckey]
	if cfc == nil {
		c.errs = append(c.errs, "callback: the closure "+shortKey(ckey)+" passed to "+shortKey(key)+" has no contract")
		return false
	}
	c.usedContracts[ckey] = cfc
	pfc := c.eng.cs.Funcs[key+"@param:"+name]
	if pfc != nil {
		c.usedContracts[key+"@param:"+name] = pfc
	}
	short := shortKey(key)
	ord := c.callOrdinal(in, key)
	fvs := c.closureBindings(st, mc)
	var cnames []string
	if len(cfc.Names) > 0 {
		cnames = cfc.Names
	} else {
		for _, p := range fn.Params {
			cnames = append(cnames, p.Name())
		}
	}
	closureEnv := func(st *State, heap map[string]string, params []Val) *SpecEnv {
		e := &SpecEnv{c: c, st: st, heap: heap, vars: map[string]Val{}, pkg: fn.Pkg.Pkg, foreign: true, fvs: fvs, frame: frame, atcallHeap: preHeap}
		for i, p := range params {
			if i < len(cnames) {
				e.vars[cnames[i]] = p
			}
		}
		return e
	}
	// the parameter contract sees F's parameters and its own
	paramEnv := func(st *State, heap map[string]string, params []Val) *SpecEnv {
		e := &SpecEnv{c: c, st: st, heap: heap, vars: map[string]Val{}, pkg: fenv.pkg, foreign: true, frame: frame}
		for n, v := range fenv.vars {
			e.vars[n] = v
		}
		if pfc != nil {
			for i, p := range params {
				if i < len(pfc.Names) {
					e.vars[pfc.Names[i]] = p
				}
			}
		}
		return e
	}
	assumeAll := func(st *State, env *SpecEnv, cl []*Clause, what string) {
		for _, e := range cl {
			t, err := c.evalBool(env, e.Expr)
			if err != nil {
				c.errs = append(c.errs, fmt.Sprintf("%s:%d: callback %s %s: %v", e.File, e.Line, what, e.Label, err))
				continue
			}
			st.assume(t)
		}
	}
	// 1. the invariant holds before the call
	env0 := closureEnv(st, preHeap, nil)
	for _, inv := range cfc.CbInvs {
		t, err := c.evalBool(env0, inv.Expr)
		if err != nil {
			c.errs = append(c.errs, fmt.Sprintf("%s:%d: callback invariant %s: %v", inv.File, inv.Line, inv.Label, err))
			continue
		}
		c.addOblig(st, fmt.Sprintf("call:%s#%d:callback:invariant:%s", short, ord, inv.Label), "precondition", t, inv.Text, in.Pos())
	}
	// 2. S1: after any number of earlier calls
	var params []Val
	for _, p := range fn.Params {
		v := c.freshVal(st, p.Type(), "cb."+p.Name())
		c.assumeAllocated(st, v)
		params = append(params, v)
	}
	envS1 := closureEnv(st, st.heap, params)
	for _, m := range cfc.Modifies {
		c.havocModItem(st, envS1, m, copyHeap(st.heap))
	}
	assumeAll(st, envS1, cfc.CbInvs, "invariant")
	// 3. the closure's preconditions hold there for any arguments F may pass
	if pfc != nil {
		assumeAll(st, paramEnv(st, st.heap, params), pfc.Requires, "parameter requires")
	}
	for _, r := range cfc.Requires {
		t, err := c.evalBool(envS1, r.Expr)
		if err != nil {
			c.errs = append(c.errs, fmt.Sprintf("%s:%d: callback requires %s: %v", r.File, r.Line, r.Label, err))
			continue
		}
		c.addOblig(st, fmt.Sprintf("call:%s#%d:callback:requires:%s", short, ord, r.Label), "precondition", t, r.Text, in.Pos())
		st.assume(t)
	}
	// 4A. never called: the ghost bookkeeping of the parameter contract is untouched
	stA := st.clone()
	if pfc != nil {
		envA := paramEnv(stA, stA.heap, params)
		for _, m := range pfc.Modifies {
			c.restoreModItem(stA, envA, m, preHeap)
		}
	}
	c.note("callback rule at " + short + ": the closure " + shortKey(ckey) + " is called zero or more times; its effects are summarised by its invariant(s) and one application of its contract as the last call")
	finish(stA, res)
	// 4B. called at least once: the last call
	heapS1 := copyHeap(st.heap)
	allocS1 := st.alloc
	envB := closureEnv(st, st.heap, params)
	for _, m := range cfc.Modifies {
		c.havocModItem(st, envB, m, heapS1)
	}
	if pfc != nil {
		pe := paramEnv(st, st.heap, params)
		for _, m := range pfc.Modifies {
			c.havocModItem(st, pe, m, heapS1)
		}
	}
	var crt types.Type = fn.Signature.Results()
	if fn.Signature.Results().Len() == 1 {
		crt = fn.Signature.Results().At(0).Type()
	}
	rlast := c.contractResult(st, crt, "cb.ret")
	post := closureEnv(st, st.heap, params)
	old := closureEnv(st, heapS1, params)
	old.isOld, old.alloc = true, allocS1
	post.old = old
	c.bindResults(post, fn, cfc, rlast, crt)
	assumeAll(st, post, cfc.Ensures, "ensures")
	assumeAll(st, post, cfc.CbInvs, "invariant")
	if pfc != nil {
		ppost := paramEnv(st, st.heap, params)
		pold := paramEnv(st, heapS1, params)
		pold.isOld, pold.alloc = true, allocS1
		ppost.old = pold
		c.bindResults(ppost, nil, pfc, rlast, crt)
		assumeAll(st, ppost, pfc.Ensures, "parameter ensures")
	}
	finish(st, res)
	return true
}

// restoreModItem gives the locations named by a modifies item of kind `x.f` their values from
// preHeap (used for "the callback was never called").
func (c *FnCtx) restoreModItem(st *State, env *SpecEnv, m ModItem, preHeap map[string]string) {
	if m.Kind != "field" {
		c.errs = append(c.errs, "callback: a parameter contract may only modify ghost fields (x.f)")
		return
	}
	obj, err := c.eval(env, m.Expr)
	if err != nil {
		c.errs = append(c.errs, "callback: "+err.Error())
		return
	}
	owner, ok := fieldOwner(obj)
	if !ok {
		return
	}
	ft, ghost := c.fieldType(owner, m.Name)
	if ft == nil {
		return
	}
	path := m.Name
	if ghost {
		path = "$" + m.Name
	}
	for _, lf := range leavesOf(ft) {
		name := arrName("F", typeName(owner), joinPath(path, lf.Path), lf.Sort)
		c.heapSet(st, name, sto(c.heapGet(st.heap, name), obj.S, sel(c.heapGet(preHeap, name), obj.S)))
	}
}
