package main

// Symbolic state: path condition, SSA environment, heap arrays, allocation set.

import (
	"fmt"
	"go/types"
	"strings"

	"golang.org/x/tools/go/ssa"
)

type deferred struct {
	frame int
	call  *ssa.Defer
}

type Iter struct {
	Map     Val    // the ranged map (scalar ref) or other
	IsMap   bool
	MapKey  string // map type key
	V       string // visited set term (Array Int Bool)
	Count   string // number of visited keys
	StartL  string // Mlen at range time
	StartD  string // key set at range time
	Ord     int    // loop ordinal the iterator feeds (-1 unknown)
	NoWrite bool   // loop body does not write to maps of this type
}

type State struct {
	pc       []string
	env      map[ssa.Value]Val
	heap     map[string]string // array name -> current symbol
	alloc    string            // current allocated-set term
	oldHeap  map[string]string
	oldAlloc string
	defers   []deferred
	iters    map[ssa.Value]*Iter
	held     map[string]bool
	lockedOnce bool
	ghostEnv map[string]Val // loop/ghost variables by name
	depth    int
	ghostDone bool
	loopEntry map[int]map[string]string // heap at the most recent entry of loop k (for entry(...))
	loopIter  map[int]map[string]string // heap at the start of the current iteration of loop k (for iterstart(...))
}

func (st *State) clone() *State {
	n := &State{
		pc:         append([]string(nil), st.pc...),
		env:        make(map[ssa.Value]Val, len(st.env)+8),
		heap:       make(map[string]string, len(st.heap)+4),
		alloc:      st.alloc,
		oldHeap:    st.oldHeap,
		oldAlloc:   st.oldAlloc,
		defers:     append([]deferred(nil), st.defers...),
		iters:      make(map[ssa.Value]*Iter, len(st.iters)),
		held:       make(map[string]bool, len(st.held)),
		lockedOnce: st.lockedOnce,
		ghostEnv:   st.ghostEnv,
		depth:      st.depth,
		ghostDone:  st.ghostDone,
		loopEntry:  st.loopEntry,
		loopIter:   st.loopIter,
	}
	for k, v := range st.env {
		n.env[k] = v
	}
	for k, v := range st.heap {
		n.heap[k] = v
	}
	for k, v := range st.iters {
		c := *v
		n.iters[k] = &c
	}
	for k, v := range st.held {
		n.held[k] = v
	}
	return n
}

func (st *State) assume(f string) {
	if f == "" || f == "true" {
		return
	}
	st.pc = append(st.pc, f)
}

func copyHeap(h map[string]string) map[string]string {
	n := make(map[string]string, len(h))
	for k, v := range h {
		n[k] = v
	}
	return n
}

// ---- declarations ---------------------------------------------------------

func (c *FnCtx) declare(name, sort string) {
	if c.declared[name] {
		return
	}
	c.declared[name] = true
	c.decls = append(c.decls, fmt.Sprintf("(declare-fun %s () %s)", name, sort))
}

func (c *FnCtx) declareFun(name string, args []string, res string) {
	if c.declared[name] {
		return
	}
	c.declared[name] = true
	c.decls = append(c.decls, fmt.Sprintf("(declare-fun %s (%s) %s)", name, strings.Join(args, " "), res))
}

func (c *FnCtx) fresh(prefix, sort string) string {
	c.nfresh++
	name := sym(fmt.Sprintf("%s!%d", prefix, c.nfresh))
	c.declare(name, sort)
	return name
}

// arraySort gives the SMT sort of a heap array from its name.
func arraySort(name string) string {
	leaf := "Int"
	if strings.HasSuffix(name, "|Bool") {
		leaf = "Bool"
	}
	switch name[0] {
	case 'F', 'C':
		return "(Array Int " + leaf + ")"
	case 'M', 'V':
		return "(Array Int (Array Int " + leaf + "))"
	case 'D':
		return "(Array Int (Array Int Bool))"
	case 'L', 'S':
		return "(Array Int Int)"
	case 'G':
		return leaf
	}
	panic("bad array name " + name)
}

// arrName builds the heap array name for a space/key/leaf path/sort.
func arrName(space, key, path, sort string) string {
	return space + "|" + key + "|" + path + "|" + sort
}

// heapGet returns the current symbol of a heap array in heap map h.
func (c *FnCtx) heapGet(h map[string]string, name string) string {
	if c.knownArrays == nil {
		c.knownArrays = map[string]bool{}
	}
	c.knownArrays[name] = true
	if s, ok := h[name]; ok {
		return s
	}
	s := sym(name + "@0")
	if !c.declared[s] {
		c.declare(s, arraySort(name))
		// nil container facts for the initial version
		switch name[0] {
		case 'D':
			c.globalFacts = append(c.globalFacts, fmt.Sprintf("(= (select %s 0) ((as const (Array Int Bool)) false))", s))
		case 'L':
			c.globalFacts = append(c.globalFacts, fmt.Sprintf("(= (select %s 0) 0)", s))
		}
	}
	return s
}

// heapSet installs a new version of a heap array defined by term.
func (c *FnCtx) heapSet(st *State, name, term string) {
	n := c.fresh(name, arraySort(name))
	st.assume(eq(n, term))
	st.heap[name] = n
	c.touched[name] = true
}

// heapHavoc replaces a heap array by a fresh unconstrained version.
func (c *FnCtx) heapHavoc(st *State, name string) string {
	n := c.fresh(name, arraySort(name))
	st.heap[name] = n
	c.touched[name] = true
	if c.knownArrays == nil {
		c.knownArrays = map[string]bool{}
	}
	c.knownArrays[name] = true
	// the nil map stays empty in every heap state
	switch name[0] {
	case 'D':
		st.assume(fmt.Sprintf("(= (select %s 0) ((as const (Array Int Bool)) false))", n))
	case 'L':
		st.assume(fmt.Sprintf("(= (select %s 0) 0)", n))
	}
	return n
}

// ---- keys -----------------------------------------------------------------

func structKey(t types.Type) string {
	if p, ok := t.Underlying().(*types.Pointer); ok {
		t = p.Elem()
	}
	return typeName(t)
}

func mapKeyOf(t types.Type) string {
	return typeName(t.Underlying())
}

func elemKey(t types.Type) string { return typeName(t) }

// ---- load / store -----------------------------------------------------------

func (a *Addr) leafTerm(c *FnCtx, h map[string]string, path, sort string) string {
	name := arrName(a.Space, a.Key, path, sort)
	arr := c.heapGet(h, name)
	switch a.Space {
	case "F", "C":
		return sel(arr, a.Idx[0])
	case "M", "V":
		return sel2(arr, a.Idx[0], a.Idx[1])
	case "G":
		return arr
	}
	panic("bad space")
}

// loadAt reads the value at address a in heap map h (no assumptions added).
func (c *FnCtx) loadAt(h map[string]string, a *Addr) Val {
	return buildVal(a.T, a.Path, func(path, sort string, t types.Type) string {
		return a.leafTerm(c, h, path, sort)
	})
}

// load reads from the current heap and adds type facts for the loaded leaves.
func (c *FnCtx) load(st *State, a *Addr) Val {
	v := c.loadAt(st.heap, a)
	c.assumeTypeFacts(st, v)
	return v
}

// assumeTypeFacts adds integer-range and allocation facts for every leaf of v.
func (c *FnCtx) assumeTypeFacts(st *State, v Val) {
	walkLeaves(v, "", func(path string, leaf Val) {
		switch leaf.K {
		case KInt:
			if strings.HasSuffix(path, "#len") || strings.HasSuffix(path, "#cap") || strings.HasSuffix(path, "#off") {
				return
			}
			if f := rangeFact(leaf.T, leaf.S); f != "" {
				st.assume(f)
			}
		case KString:
			st.assume("(and (>= (strlen " + leaf.S + ") 0) (<= (strlen " + leaf.S + ") 9223372036854775807))")
		}
	})
	c.assumeShapeFacts(st, v)
}

// assumeShapeFacts adds slice well-formedness for slices inside v.
func (c *FnCtx) assumeShapeFacts(st *State, v Val) {
	switch v.K {
	case KSlice:
		st.assume(fmt.Sprintf("(and (<= 0 %s) (<= 0 %s) (<= %s %s) (>= %s 0))", v.Off(), v.Len(), v.Len(), v.Cap(), v.Base()))
		st.assume(fmt.Sprintf("(=> (= %s 0) (= %s 0))", v.Base(), v.Cap()))
		st.assume(fmt.Sprintf("(<= (+ %s %s) 9223372036854775807)", v.Off(), v.Cap()))
		if sl, ok := v.T.Underlying().(*types.Slice); ok && nonZeroSize(sl.Elem()) {
			// the Go runtime cannot allocate more than maxAlloc = 2^48 bytes on 64-bit platforms
			st.assume(fmt.Sprintf("(<= %s 281474976710656)", v.Cap()))
			c.note("a slice of non-zero-size elements has capacity at most 2^48 (runtime maxAlloc on 64-bit platforms)")
		}
	case KStruct, KTuple:
		for _, f := range v.F {
			c.assumeShapeFacts(st, f)
		}
	case KRef:
		st.assume("(>= " + v.S + " 0)")
	}
}

// store writes v at address a.
func (c *FnCtx) store(st *State, a *Addr, v Val) {
	walkLeaves(v, a.Path, func(path string, leaf Val) {
		sort := leafSort(leaf.K)
		name := arrName(a.Space, a.Key, path, sort)
		arr := c.heapGet(st.heap, name)
		var t string
		switch a.Space {
		case "F", "C":
			t = sto(arr, a.Idx[0], leaf.S)
		case "M", "V":
			t = sto2(arr, a.Idx[0], a.Idx[1], leaf.S)
		case "G":
			t = leaf.S
		}
		c.heapSet(st, name, t)
	})
}

// zeroVal builds the zero value of t.
func zeroVal(t types.Type) Val {
	return buildVal(t, "", func(path, sort string, lt types.Type) string {
		if sort == "Bool" {
			return "false"
		}
		if kindOf(lt) == KString {
			return "str_empty"
		}
		return "0"
	})
}

// freshVal builds an unconstrained value of type t.
func (c *FnCtx) freshVal(st *State, t types.Type, prefix string) Val {
	v := buildVal(t, "", func(path, sort string, lt types.Type) string {
		return c.fresh(prefix+"."+path, sort)
	})
	c.assumeTypeFacts(st, v)
	return v
}

// allocRef creates a fresh non-nil reference that is not in the allocated set.
func (c *FnCtx) allocRef(st *State, prefix string) string {
	return c.allocRefT(st, prefix, nil)
}

// refTypeID is the run-time type tag of heap objects of struct type t ("" if t is not tagged).
func (c *FnCtx) refTypeID(t types.Type) string {
	if t == nil {
		return ""
	}
	if _, ok := t.(*types.Named); ok && kindOf(t) == KStruct {
		return c.typeID(t)
	}
	if m, ok := t.Underlying().(*types.Map); ok {
		return c.typeID(m) // maps of different types are different objects
	}
	return ""
}

// allocRefT allocates an object of type t (nil: untyped storage such as maps, cells, rows).
func (c *FnCtx) allocRefT(st *State, prefix string, t types.Type) string {
	r := c.fresh(prefix, "Int")
	if tid := c.refTypeID(t); tid != "" {
		st.assume("(= (rtype " + r + ") " + tid + ")")
	} else {
		st.assume("(= (rtype " + r + ") 0)")
	}
	st.assume("(> " + r + " 0)")
	st.assume(not(sel(st.alloc, r)))
	na := c.fresh("alloc", "(Array Int Bool)")
	st.assume(eq(na, sto(st.alloc, r, "true")))
	st.alloc = na
	return r
}

// assumeAllocated records that pointer-like leaves of v are nil or allocated.
func (c *FnCtx) assumeAllocated(st *State, v Val) {
	walkLeaves(v, "", func(path string, leaf Val) {
		isRef := leaf.K == KRef || strings.HasSuffix(path, "#base")
		if isRef {
			st.assume(or(eq(leaf.S, "0"), sel(st.alloc, leaf.S)))
			if leaf.A == nil && leaf.K == KRef {
				if pt, ok := leaf.T.Underlying().(*types.Pointer); ok {
					if tid := c.refTypeID(pt.Elem()); tid != "" {
						st.assume(or(eq(leaf.S, "0"), eq("(rtype "+leaf.S+")", tid)))
					}
				}
				if _, ok := leaf.T.Underlying().(*types.Map); ok {
					st.assume(or(eq(leaf.S, "0"), eq("(rtype "+leaf.S+")", c.refTypeID(leaf.T))))
				}
			}
		}
	})
}

// addrOfPointer turns a pointer-typed value into an address of its pointee.
func (c *FnCtx) addrOfPointer(v Val) *Addr {
	if v.A != nil {
		return v.A
	}
	pt, ok := v.T.Underlying().(*types.Pointer)
	if !ok {
		return nil
	}
	el := pt.Elem()
	switch kindOf(el) {
	case KStruct:
		return &Addr{Space: "F", Key: typeName(el), Idx: []string{v.S}, Path: "", T: el}
	case KArray:
		at := el.Underlying().(*types.Array)
		// pointer to array: memory row
		return &Addr{Space: "M", Key: elemKey(at.Elem()), Idx: []string{v.S, "0"}, Path: "", T: el}
	default:
		return &Addr{Space: "C", Key: typeName(el), Idx: []string{v.S}, Path: "", T: el}
	}
}

var gcSizes = types.SizesFor("gc", "amd64")

func nonZeroSize(t types.Type) (ok bool) {
	defer func() {
		if recover() != nil {
			ok = false
		}
	}()
	if _, isTP := t.(*types.TypeParam); isTP {
		return false
	}
	return gcSizes.Sizeof(t) > 0
}
