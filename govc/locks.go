package main

// Monitor reasoning: lock invariants assumed at Lock (after havocking the guarded state) and
// proved at Unlock; frame checking at return.

import (
	"fmt"
	"go/token"
	"go/types"
	"sort"
	"strings"

	"golang.org/x/tools/go/ssa"
)

var lockCalls = map[string]string{
	"sync.Mutex.Lock":      "lock",
	"sync.Mutex.Unlock":    "unlock",
	"sync.RWMutex.Lock":    "lock",
	"sync.RWMutex.Unlock":  "unlock",
	"sync.RWMutex.RLock":   "rlock",
	"sync.RWMutex.RUnlock": "runlock",
	"sync.Mutex.TryLock":   "",
}

func (c *FnCtx) isLockCall(key string) bool {
	_, ok := lockCalls[key]
	return ok
}

// findLockInv finds the lock invariant for mutex field path `mutex` of struct type key.
func (c *FnCtx) findLockInv(structKey, mutex string) *LockInv {
	for _, li := range c.eng.cs.LockInvs {
		if li.PkgPath+"."+li.Type == structKey && li.Mutex == mutex {
			return li
		}
	}
	return nil
}

// special handles calls with built-in semantics. Returns true if handled.
func (c *FnCtx) special(frame *Frame, st *State, in ssa.Instruction, call *ssa.CallCommon, key string, args []Val, rt types.Type, k func(st *State, res Val)) bool {
	if key == "sort.Slice" || key == "sort.SliceStable" {
		if c.sortSlice(st, args) {
			k(st, Val{K: KTuple})
			return true
		}
	}
	if key == "sort.Reverse" && len(args) == 1 {
		// the reversed view sorts the same underlying data with Less(i, j) replaced by Less(j, i)
		r := c.fresh("sort.reverse", "Int")
		st.assume("(> " + r + " 0)")
		if c.revOf == nil {
			c.revOf = map[string]string{}
		}
		c.revOf[r] = args[0].S
		k(st, Val{T: args[0].T, K: KIface, S: r})
		return true
	}
	if key == "sort.Sort" || key == "sort.Stable" {
		if c.sortInterface(st, args) {
			k(st, Val{K: KTuple})
			return true
		}
	}
	if strings.HasPrefix(key, "sync.Locker.") || strings.HasPrefix(key, "sync.Cond.") {
		if c.lockerCall(frame, st, in, call, key) {
			k(st, Val{K: KTuple})
			return true
		}
	}
	if op, ok := lockCalls[key]; ok && op != "" {
		recv := args[0]
		a := recv.A
		if a == nil || a.Space != "F" {
			if c.anonLock(frame, st, op) {
				k(st, Val{K: KTuple})
				return true
			}
			c.note("lock on a mutex that is not a struct field: no invariant")
			k(st, Val{K: KTuple})
			return true
		}
		li := c.findLockInv(a.Key, a.Path)
		mkey := a.Key + "." + a.Path + "@" + a.Idx[0]
		if li == nil {
			if c.anonLock(frame, st, op) {
				k(st, Val{K: KTuple})
				return true
			}
			c.note("mutex " + shortCallee(a.Key) + "." + a.Path + " has no lockinv")
			k(st, Val{K: KTuple})
			return true
		}
		c.lockOp(frame, st, li, a.Idx[0], mkey, op, in)
		k(st, Val{K: KTuple})
		return true
	}
	return false
}

// lockOp applies the monitor rule for one acquisition or release of the mutex of object obj.
func (c *FnCtx) lockOp(frame *Frame, st *State, li *LockInv, obj, mkey, op string, in ssa.Instruction) {
c.usedLockInvs[li.PkgPath+"."+li.Type+"."+li.Mutex] = true
	switch op {
	case "lock", "rlock":
		c.havocGuarded(st, li, obj)
		c.assumeLockInv(st, li, obj)
		st.held[mkey] = true
		if op == "rlock" {
			st.held[mkey+"#r"] = true
		}
		if !st.lockedOnce {
			st.lockedOnce = true
			if !frame.inlined && frame.contract != nil {
				env := c.entryEnv(frame, st)
				for _, r := range frame.contract.RequiresLocked {
					t, err := c.evalBool(env, r.Expr)
					if err != nil {
						c.errs = append(c.errs, fmt.Sprintf("%s:%d: requires_locked %s: %v", r.File, r.Line, r.Label, err))
						continue
					}
					st.assume(t)
					c.note("rely: requires_locked " + r.Label + " (" + r.Text + ") is assumed to still hold when the lock is acquired")
				}
			}
			st.oldHeap = copyHeap(st.heap)
			// oldAlloc stays the allocated set at function entry: locals allocated before the
			// Lock are not part of the caller-visible frame
		}
	case "unlock", "runlock":
		c.assertLockInv(st, li, obj, in)
		st.held[mkey] = false
		delete(st.held, mkey+"#r")
	}
}

// mutexOwner walks back from an SSA value that denotes a lock reached through fields (for example
// the sync.Locker loaded from t.cond.L) to the struct object that has a lock invariant for that
// field path.
func (c *FnCtx) mutexOwner(v ssa.Value, segs []string) (ssa.Value, *LockInv, string) {
	for i := 0; i < 8; i++ {
		switch x := v.(type) {
		case *ssa.UnOp:
			if x.Op != token.MUL {
				return nil, nil, ""
			}
			v = x.X
		case *ssa.FieldAddr:
			pt, ok := x.X.Type().Underlying().(*types.Pointer)
			if !ok {
				return nil, nil, ""
			}
			stt, ok := pt.Elem().Underlying().(*types.Struct)
			if !ok {
				return nil, nil, ""
			}
			segs = append([]string{stt.Field(x.Field).Name()}, segs...)
			path := strings.Join(segs, ".")
			if li := c.findLockInv(typeName(pt.Elem()), path); li != nil {
				return x.X, li, path
			}
			v = x.X
		default:
			return nil, nil, ""
		}
	}
	return nil, nil, ""
}

// lockerCall handles sync.Locker.Lock/Unlock and sync.Cond.Wait/Broadcast/Signal on a lock that a
// lockinv names by field path (lockinv T.cond.L ...). Wait releases the lock and re-acquires it.
func (c *FnCtx) lockerCall(frame *Frame, st *State, in ssa.Instruction, call *ssa.CallCommon, key string) bool {
	var root ssa.Value
	var segs []string
	var ops []string
	switch key {
	case "sync.Locker.Lock":
		root, ops = call.Value, []string{"lock"}
	case "sync.Locker.Unlock":
		root, ops = call.Value, []string{"unlock"}
	case "sync.Cond.Wait":
		root, segs, ops = call.Args[0], []string{"L"}, []string{"unlock", "lock"}
	case "sync.Cond.Broadcast", "sync.Cond.Signal":
		return true
	default:
		return false
	}
	owner, li, path := c.mutexOwner(root, segs)
	if li == nil {
		return false
	}
	ov := c.val(st, owner)
	mkey := li.PkgPath + "." + li.Type + "." + path + "@" + ov.S
	for _, op := range ops {
		c.lockOp(frame, st, li, ov.S, mkey, op, in)
	}
	if len(ops) == 2 {
		c.note("sync.Cond.Wait: modelled as Unlock followed by Lock (spurious wake-ups included)")
	}
	return true
}

func (c *FnCtx) lockSelfVal(li *LockInv, obj string) (Val, *types.Package) {
	pkg := c.eng.pkgOf(li.PkgPath)
	if pkg == nil {
		return Val{}, nil
	}
	o := pkg.Scope().Lookup(li.Type)
	if o == nil {
		return Val{}, pkg
	}
	return scalar(types.NewPointer(o.Type()), obj), pkg
}

func (c *FnCtx) lockEnv(st *State, li *LockInv, obj string) *SpecEnv {
	self, pkg := c.lockSelfVal(li, obj)
	env := &SpecEnv{c: c, st: st, heap: st.heap, vars: map[string]Val{}, pkg: pkg}
	name := li.Self
	if name == "" {
		name = "self"
	}
	env.vars[name] = self
	return env
}

func (c *FnCtx) assumeLockInv(st *State, li *LockInv, obj string) {
	env := c.lockEnv(st, li, obj)
	for _, inv := range li.Inv {
		t, err := c.evalBool(env, inv.Expr)
		if err != nil {
			c.errs = append(c.errs, fmt.Sprintf("%s:%d: lockinv %s: %v", inv.File, inv.Line, inv.Label, err))
			continue
		}
		st.assume(t)
	}
}

func (c *FnCtx) assertLockInv(st *State, li *LockInv, obj string, in ssa.Instruction) {
	env := c.lockEnv(st, li, obj)
	ord := c.callOrdinal(in, "unlock:"+li.Type+"."+li.Mutex)
	for _, inv := range li.Inv {
		t, err := c.evalBool(env, inv.Expr)
		if err != nil {
			c.errs = append(c.errs, fmt.Sprintf("%s:%d: lockinv %s: %v", inv.File, inv.Line, inv.Label, err))
			continue
		}
		c.addOblig(st, fmt.Sprintf("lockinv:%s.%s:%s@unlock#%d", li.Type, li.Mutex, inv.Label, ord), "lockinv", t, inv.Text, in.Pos())
	}
}

// havocGuarded havocs the state guarded by the mutex of object obj.
func (c *FnCtx) havocGuarded(st *State, li *LockInv, obj string) {
	pkg := c.eng.pkgOf(li.PkgPath)
	if pkg == nil {
		return
	}
	o := pkg.Scope().Lookup(li.Type)
	if o == nil {
		c.errs = append(c.errs, "lockinv: unknown type "+li.Type)
		return
	}
	key := typeName(o.Type())
	for _, g := range li.Guards {
		if strings.HasPrefix(g, "allmem ") {
			// every backing array with elements of this type is shared state
			tn := strings.TrimSpace(strings.TrimPrefix(g, "allmem "))
			to := c.eng.resolveType(pkg, tn)
			if to == nil {
				c.errs = append(c.errs, "lockinv guards: unknown type "+tn)
				continue
			}
			for _, lf := range leavesOf(to) {
				c.heapHavoc(st, arrName("M", elemKey(to), lf.Path, lf.Sort))
			}
			continue
		}
		if strings.HasPrefix(g, "allmaps ") {
			// every map of this type is shared state
			tn := strings.TrimSpace(strings.TrimPrefix(g, "allmaps "))
			to := c.eng.resolveType(pkg, tn)
			mt, ok := to.(*types.Map)
			if to == nil || !ok {
				c.errs = append(c.errs, "lockinv guards: not a map type "+tn)
				continue
			}
			mk := mapKeyOf(to)
			c.heapHavoc(st, arrName("D", mk, "", "Bool"))
			nl := c.heapHavoc(st, arrName("L", "", "", "Int"))
			st.assume(fmt.Sprintf("(forall ((r Int)) (>= (select %s r) 0))", nl))
			for _, lf := range leavesOf(mt.Elem()) {
				c.heapHavoc(st, arrName("V", mk, lf.Path, lf.Sort))
			}
			continue
		}
		if strings.HasPrefix(g, "type ") {
			tn := strings.TrimSpace(strings.TrimPrefix(g, "type "))
			to := c.eng.resolveType(pkg, tn)
			if to == nil {
				c.errs = append(c.errs, "lockinv guards: unknown type "+tn)
				continue
			}
			tk := typeName(to)
			for name := range c.allArrays() {
				if strings.HasPrefix(name, "F|"+tk+"|") {
					c.heapHavoc(st, name)
				}
			}
			// also arrays not yet declared: declare lazily by walking leaves
			for _, lf := range leavesOf(to) {
				c.heapHavoc(st, arrName("F", tk, lf.Path, lf.Sort))
			}
			for _, gf := range c.eng.cs.Ghosts {
				if gf.PkgPath+"."+gf.Type == tk {
					if gt := c.eng.resolveType(pkg, gf.FieldType); gt != nil {
						for _, lf := range leavesOf(gt) {
							c.heapHavoc(st, arrName("F", tk, joinPath("$"+gf.Name, lf.Path), lf.Sort))
						}
					}
				}
			}
			continue
		}
		contentsOnly := false
		if strings.HasPrefix(g, "contents ") {
			contentsOnly = true
			g = strings.TrimSpace(strings.TrimPrefix(g, "contents "))
		}
		ft, ghost := c.fieldType(o.Type(), g)
		if ft == nil {
			c.errs = append(c.errs, "lockinv guards: unknown field "+g)
			continue
		}
		path := g
		if ghost {
			path = "$" + g
		}
		var fv Val
		a := &Addr{Space: "F", Key: key, Idx: []string{obj}, Path: path, T: ft}
		if contentsOnly {
			// the field itself is immutable after construction; only what it refers to is shared state
			fv = c.load(st, a)
		} else {
			nv := c.freshVal(st, ft, "locked."+g)
			c.assumeAllocated(st, nv)
			c.store(st, a, nv)
			fv = nv
		}
		if li.RefOnly[g] {
			continue
		}
		// contents of containers held in the field
		switch t := ft.Underlying().(type) {
		case *types.Map:
			c.havocMapRow(st, fv)
			_ = t
		case *types.Slice:
			for _, lf := range leavesOf(t.Elem()) {
				name := arrName("M", elemKey(t.Elem()), lf.Path, lf.Sort)
				c.heapSet(st, name, sto(c.heapGet(st.heap, name), fv.Base(), c.fresh("locked.row", "(Array Int "+lf.Sort+")")))
			}
		}
	}
}

func (c *FnCtx) havocGuardedByCall(st *State, call *ssa.CallCommon) {
	if len(call.Args) == 0 {
		return
	}
	// coarse: havoc all guarded fields of the struct type holding the mutex, for all objects
	fa, ok := call.Args[0].(*ssa.FieldAddr)
	if !ok {
		return
	}
	stt := fa.X.Type().Underlying().(*types.Pointer).Elem()
	key := typeName(stt)
	mutex := stt.Underlying().(*types.Struct).Field(fa.Field).Name()
	li := c.findLockInv(key, mutex)
	if li == nil {
		return
	}
	for _, g := range li.Guards {
		if strings.HasPrefix(g, "type ") {
			continue
		}
		contentsOnly := false
		if strings.HasPrefix(g, "contents ") {
			contentsOnly = true
			g = strings.TrimSpace(strings.TrimPrefix(g, "contents "))
		}
		ft, ghost := c.fieldType(stt, g)
		if ft == nil {
			continue
		}
		path := g
		if ghost {
			path = "$" + g
		}
		if !contentsOnly {
			for _, lf := range leavesOf(ft) {
				c.heapHavoc(st, arrName("F", key, joinPath(path, lf.Path), lf.Sort))
			}
		}
		if li.RefOnly[g] {
			continue
		}
		if mt, ok := ft.Underlying().(*types.Map); ok {
			mk := mapKeyOf(ft)
			c.heapHavoc(st, arrName("D", mk, "", "Bool"))
			c.heapHavoc(st, arrName("L", "", "", "Int"))
			for _, lf := range leavesOf(mt.Elem()) {
				c.heapHavoc(st, arrName("V", mk, lf.Path, lf.Sort))
			}
		}
	}
}

// interferenceHeap returns a copy of the heap in which every lock-guarded location whose mutex is
// not held has an arbitrary value: what other threads may have made of the shared state by now.
// Lock invariants are not assumed for it. Used by the spec operator unlocked(e).
func (c *FnCtx) interferenceHeap(env *SpecEnv) map[string]string {
	h := copyHeap(env.heap)
	hv := func(name string) {
		h[name] = c.fresh(name, arraySort(name))
		if c.knownArrays == nil {
			c.knownArrays = map[string]bool{}
		}
		c.knownArrays[name] = true
	}
	for _, li := range c.eng.cs.LockInvs {
		pkg := c.eng.pkgOf(li.PkgPath)
		if pkg == nil {
			continue
		}
		o := pkg.Scope().Lookup(li.Type)
		if o == nil {
			continue
		}
		stt := o.Type()
		key := typeName(stt)
		held := false
		if env.st != nil {
			for k, v := range env.st.held {
				if v && strings.HasPrefix(k, key+"."+li.Mutex+"@") {
					held = true
				}
			}
		}
		if held {
			continue
		}
		for _, g := range li.Guards {
			if strings.HasPrefix(g, "type ") || strings.HasPrefix(g, "allmem ") || strings.HasPrefix(g, "allmaps ") {
				continue
			}
			contentsOnly := false
			if strings.HasPrefix(g, "contents ") {
				contentsOnly = true
				g = strings.TrimSpace(strings.TrimPrefix(g, "contents "))
			}
			ft, ghost := c.fieldType(stt, g)
			if ft == nil {
				continue
			}
			path := g
			if ghost {
				path = "$" + g
			}
			if !contentsOnly {
				for _, lf := range leavesOf(ft) {
					hv(arrName("F", key, joinPath(path, lf.Path), lf.Sort))
				}
			}
			if li.RefOnly[g] {
				continue
			}
			if mt, ok := ft.Underlying().(*types.Map); ok {
				mk := mapKeyOf(ft)
				hv(arrName("D", mk, "", "Bool"))
				hv(arrName("L", "", "", "Int"))
				for _, lf := range leavesOf(mt.Elem()) {
					hv(arrName("V", mk, lf.Path, lf.Sort))
				}
			}
		}
	}
	return h
}

// checkGuardedWrite flags writes to guarded fields without holding the mutex.
func (c *FnCtx) checkGuardedWrite(st *State, a *Addr, pos token.Pos) {
	if a.Space != "F" {
		return
	}
	for _, li := range c.eng.cs.LockInvs {
		if li.PkgPath+"."+li.Type != a.Key {
			continue
		}
		root := a.Path
		if i := strings.Index(root, "."); i >= 0 {
			root = root[:i]
		}
		for _, g := range li.Guards {
			if strings.HasPrefix(g, "contents ") && strings.TrimSpace(strings.TrimPrefix(g, "contents ")) == root {
				// construction = the function that allocated the object: a write to an object
				// that did not exist when the function was entered is still part of it
				goal := "false"
				if st.oldAlloc != "" && len(a.Idx) > 0 {
					goal = "(not (select " + st.oldAlloc + " " + a.Idx[0] + "))"
				}
				c.addOblig(st, "lockdiscipline:write-to-immutable:"+root, "lockdiscipline", goal, "field "+root+" is declared immutable after construction (guards contents)", pos)
			}
			if g == root {
				mkey := a.Key + "." + li.Mutex + "@" + a.Idx[0]
				heldAny := false
				for k, v := range st.held {
					if v && strings.HasPrefix(k, a.Key+"."+li.Mutex+"@") {
						heldAny = true
					}
				}
				if st.held[mkey+"#r"] {
					c.addOblig(st, "lockdiscipline:write-under-rlock:"+g, "lockdiscipline", "false", "write to guarded field "+g+" under read lock", pos)
				}
				if !heldAny && !c.isConstructor() {
					c.addOblig(st, "lockdiscipline:unlocked-write:"+g, "lockdiscipline", "false", "write to guarded field "+g+" without holding "+li.Mutex, pos)
				}
			}
		}
	}
}

func (c *FnCtx) isConstructor() bool {
	return c.contract != nil && c.contract.ModText != nil && false
}

// enterHeld: the function is called with the named mutex held (e.g. "s.mu"): assume nothing extra,
// only mark the lock as held so guarded writes are legal.
func (c *FnCtx) enterHeld(st *State, env *SpecEnv, h string) {
	e, err := parseExpr(h)
	if err != nil || e.Op != "sel" {
		c.errs = append(c.errs, "held: bad mutex expression "+h)
		return
	}
	obj, err := c.eval(env, e.Args[0])
	if err != nil {
		c.errs = append(c.errs, "held: "+err.Error())
		return
	}
	pt, ok := obj.T.Underlying().(*types.Pointer)
	if !ok {
		return
	}
	st.held[typeName(pt.Elem())+"."+e.Name+"@"+obj.S] = true
	st.lockedOnce = true
}

func (c *FnCtx) exitHeld(st *State, env *SpecEnv, h string, pos token.Pos) {}

// checkFrame emits obligations that nothing outside the modifies clause changed.
func (c *FnCtx) checkFrame(frame *Frame, st *State, env *SpecEnv, pos token.Pos) {
	fc := frame.contract
	for _, m := range fc.Modifies {
		if m.Kind == "all" {
			return
		}
	}
	// collect allowed locations per array
	type allow struct {
		objs []string // F/C: object refs; M/V/D: row refs
		all  bool
	}
	allowed := map[string]*allow{}
	add := func(name, obj string) {
		a := allowed[name]
		if a == nil {
			a = &allow{}
			allowed[name] = a
		}
		a.objs = append(a.objs, obj)
	}
	entry := env.old
	everyOK := map[string]bool{}
	for _, m := range fc.Modifies {
		switch m.Kind {
		case "every":
			for _, name := range c.everyArrays(env.pkg, m) {
				everyOK[name] = true
			}
		case "field":
			obj, err := c.eval(entry, m.Expr)
			if err != nil {
				c.errs = append(c.errs, "modifies: "+err.Error())
				continue
			}
			owner, ok := fieldOwner(obj)
			if !ok {
				continue
			}
			ft, ghost := c.fieldType(owner, m.Name)
			if ft == nil {
				c.errs = append(c.errs, "modifies: unknown field "+m.Name)
				continue
			}
			path := m.Name
			if ghost {
				path = "$" + m.Name
			}
			for _, lf := range leavesOf(ft) {
				add(arrName("F", typeName(owner), joinPath(path, lf.Path), lf.Sort), obj.S)
			}
		case "map":
			mv, err := c.eval(entry, m.Expr)
			if err != nil {
				c.errs = append(c.errs, "modifies: "+err.Error())
				continue
			}
			mt, ok := mv.T.Underlying().(*types.Map)
			if !ok {
				continue
			}
			key := mapKeyOf(mv.T)
			add(arrName("D", key, "", "Bool"), mv.S)
			add(arrName("L", "", "", "Int"), mv.S)
			for _, gs := range c.sumsFor(mv.T) {
				add(sumArr(gs), mv.S)
			}
			for _, lf := range leavesOf(mt.Elem()) {
				add(arrName("V", key, lf.Path, lf.Sort), mv.S)
			}
		case "mem":
			sv, err := c.eval(entry, m.Expr)
			if err != nil || sv.K != KSlice {
				continue
			}
			et := sv.T.Underlying().(*types.Slice).Elem()
			for _, lf := range leavesOf(et) {
				add(arrName("M", elemKey(et), lf.Path, lf.Sort), sv.Base())
			}
		case "cell":
			pv, err := c.eval(entry, m.Expr)
			if err != nil {
				continue
			}
			if a := c.addrOfPointer(pv); a != nil {
				for _, lf := range leavesOf(a.T) {
					add(arrName(a.Space, a.Key, joinPath(a.Path, lf.Path), lf.Sort), a.Idx[0])
				}
			}
		case "sent":
			if ch, err := c.eval(entry, m.Expr); err == nil {
				add(arrName("S", "sent", "", "Int"), ch.S)
			}
		}
	}
	var names []string
	for n := range st.heap {
		names = append(names, n)
	}
	sort.Strings(names)
	for _, name := range names {
		cur := st.heap[name]
		old := c.heapGet(st.oldHeap, name)
		if cur == old || everyOK[name] {
			continue
		}
		if name[0] == 'G' {
			// globals: any change must be declared
			c.addOblig(st, "frame:"+frameLabel(name), "frame", eq(cur, old), "global unchanged: "+name, pos)
			continue
		}
		var excl []string
		if a := allowed[name]; a != nil {
			for _, o := range a.objs {
				excl = append(excl, not(eq("r", o)))
			}
		}
		cond := and(append([]string{sel(st.oldAlloc, "r")}, excl...)...)
		goal := fmt.Sprintf("(forall ((r Int)) (=> %s (= (select %s r) (select %s r))))", cond, cur, old)
		c.addOblig(st, "frame:"+frameLabel(name), "frame", goal, "only declared locations of "+frameLabel(name)+" are modified", pos)
	}
}

func frameLabel(name string) string {
	parts := strings.Split(name, "|")
	if len(parts) < 4 {
		return name
	}
	key := parts[1]
	if i := strings.LastIndex(key, "/"); i >= 0 {
		key = key[i+1:]
	}
	return parts[0] + ":" + key + ":" + parts[2]
}

// anonLock handles Lock/Unlock on a mutex that has no lock invariant in a function whose contract
// names the state that mutex guards (on_lock havoc ...): other threads may have changed that state
// until the lock is acquired, so it is havocked there, and old() refers to the state at that point.
func (c *FnCtx) anonLock(frame *Frame, st *State, op string) bool {
	fc := c.contract
	if fc == nil || len(fc.OnLock) == 0 {
		return false
	}
	switch op {
	case "lock", "rlock":
		st.held["$anon"] = true
		if op == "rlock" {
			st.held["$anon#r"] = true
		}
		{
			// every acquisition sees whatever other threads left behind
			first := !st.lockedOnce
			st.lockedOnce = true
			env := &SpecEnv{c: c, st: st, heap: st.heap, vars: map[string]Val{}, pkg: c.fn.Pkg.Pkg}
			for n, v := range c.entryParams {
				env.vars[n] = v
			}
			for _, m := range fc.OnLock {
				c.havocModItem(st, env, m, nil)
				env.heap = st.heap
			}
			if !first {
				return true
			}
			c.note("on_lock: " + strings.Join(fc.OnLockText, ", ") + " havocked when the mutex is first acquired (interference by other threads); old() is the state at that point")
			for _, r := range fc.RequiresLocked {
				t, err := c.evalBool(env, r.Expr)
				if err != nil {
					c.errs = append(c.errs, fmt.Sprintf("%s:%d: requires_locked %s: %v", r.File, r.Line, r.Label, err))
					continue
				}
				st.assume(t)
				c.note("rely: requires_locked " + r.Label + " (" + r.Text + ") is assumed to hold when the lock is acquired")
			}
			st.oldHeap = copyHeap(st.heap)
		}
	case "unlock", "runlock":
		st.held["$anon"] = false
		delete(st.held, "$anon#r")
	}
	return true
}

// checkAnonGuarded flags accesses to slice-valued heap cells (the *[]byte shared between a blob and
// its handles) made without holding the mutex, in functions that declare on_lock state.
func (c *FnCtx) checkAnonGuarded(st *State, a *Addr, pos token.Pos, write bool) {
	fc := c.contract
	if fc == nil || len(fc.OnLock) == 0 || a.Space != "C" || kindOf(a.T) != KSlice {
		return
	}
	if len(a.Idx) > 0 && c.stackRefs[a.Idx[0]] {
		return
	}
	if !st.held["$anon"] {
		c.addOblig(st, "lockdiscipline:unlocked-access:cell", "lockdiscipline", "false", "shared slice cell accessed without holding its mutex", pos)
	} else if write && st.held["$anon#r"] {
		c.addOblig(st, "lockdiscipline:write-under-rlock:cell", "lockdiscipline", "false", "shared slice cell written under a read lock", pos)
	}
}
