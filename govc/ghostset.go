package main

// ghost_set x.f = expr [if cond]: ghost assignments executed when the function returns, before its
// deferred calls run (so that a lock invariant checked by a deferred Unlock sees the update).

import (
	"fmt"
	"strings"

	"golang.org/x/tools/go/ssa"
)

type GhostUpdate struct {
	Obj   *Expr
	Field string
	Value *Expr
	Cond  *Expr
	Text  string
}

func parseGhostSet(s string) (*GhostUpdate, error) {
	g := &GhostUpdate{Text: s}
	body := s
	if i := strings.LastIndex(s, " if "); i >= 0 {
		c, err := parseExpr(strings.TrimSpace(s[i+4:]))
		if err != nil {
			return nil, err
		}
		g.Cond = c
		body = s[:i]
	}
	i := strings.Index(body, "=")
	if i < 0 || strings.HasPrefix(body[i:], "==") {
		return nil, fmt.Errorf("ghost_set needs x.f = expr")
	}
	lhs, err := parseExpr(strings.TrimSpace(body[:i]))
	if err != nil {
		return nil, err
	}
	if lhs.Op != "sel" {
		return nil, fmt.Errorf("ghost_set target must be x.f")
	}
	g.Obj, g.Field = lhs.Args[0], lhs.Name
	v, err := parseExpr(strings.TrimSpace(body[i+1:]))
	if err != nil {
		return nil, err
	}
	g.Value = v
	return g, nil
}

// applyGhostUpdates runs the contract's ghost assignments in state st. results are the values the
// function is about to return.
func (c *FnCtx) applyGhostUpdates(frame *Frame, st *State, results []Val, at *ssa.BasicBlock) {
	if frame.inlined || frame.contract == nil || len(frame.contract.GhostUpdates) == 0 {
		return
	}
	env := c.returnEnv(frame, st, results, at)
	for _, g := range frame.contract.GhostUpdates {
		cond := "true"
		if g.Cond != nil {
			t, err := c.evalBool(env, g.Cond)
			if err != nil {
				c.errs = append(c.errs, "ghost_set: "+err.Error())
				continue
			}
			cond = t
		}
		obj, err := c.eval(env, g.Obj)
		if err != nil {
			c.errs = append(c.errs, "ghost_set: "+err.Error())
			continue
		}
		owner, ok := fieldOwner(obj)
		if !ok {
			c.errs = append(c.errs, "ghost_set: target object is not a pointer")
			continue
		}
		ft, ghost := c.fieldType(owner, g.Field)
		if ft == nil || !ghost {
			c.errs = append(c.errs, "ghost_set: "+g.Field+" is not a ghost field")
			continue
		}
		val, err := c.eval(env, g.Value)
		if err != nil {
			c.errs = append(c.errs, "ghost_set: "+err.Error())
			continue
		}
		a := &Addr{Space: "F", Key: typeName(owner), Idx: []string{obj.S}, Path: "$" + g.Field, T: ft}
		cur := c.loadAt(st.heap, a)
		nv := mergeVals(cond, retypeSpec(val, ft), cur)
		c.store(st, a, nv)
	}
}
