package main

// Small term simplifiers so that constant slice lengths stay syntactic constants.

func minus(a, b string) string {
	if b == "0" {
		return a
	}
	if x, ok := smallConst(a); ok {
		if y, ok := smallConst(b); ok {
			return smtInt(x - y)
		}
	}
	return "(- " + a + " " + b + ")"
}

func plus(a, b string) string {
	if a == "0" {
		return b
	}
	if b == "0" {
		return a
	}
	if x, ok := smallConst(a); ok {
		if y, ok := smallConst(b); ok {
			return smtInt(x + y)
		}
	}
	return "(+ " + a + " " + b + ")"
}

// slot is the position of element i of a slice with offset off inside its backing row. It is
// written with the function `at` (defined as off + i by an axiom with a pattern) rather than
// with `+`, so that quantified facts about slice elements keep a stable trigger term: solvers
// flatten and cancel arithmetic, which silently breaks patterns containing (+ off i).
func slot(off, i string) string {
	if off == "0" {
		return i
	}
	return "(at " + off + " " + i + ")"
}
