package main

// Small term simplifiers so that constant slice lengths stay syntactic constants.

func minus(a, b string) string {
	if b == "0" {
		return a
	}
	if x, ok := smallConst(a); ok {
		if y, ok := smallConst(b); ok {
			return smtInt(x - y)
		}
	}
	return "(- " + a + " " + b + ")"
}

func plus(a, b string) string {
	if a == "0" {
		return b
	}
	if b == "0" {
		return a
	}
	if x, ok := smallConst(a); ok {
		if y, ok := smallConst(b); ok {
			return smtInt(x + y)
		}
	}
	return "(+ " + a + " " + b + ")"
}
