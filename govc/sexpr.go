package main

// Minimal S-expression reader for (get-value ...) answers.

type sx struct {
	atom string
	list []*sx
}

func parseSexprs(s string) []*sx {
	var out []*sx
	i := 0
	var parse func() *sx
	skip := func() {
		for i < len(s) && (s[i] == ' ' || s[i] == '\n' || s[i] == '\t' || s[i] == '\r') {
			i++
		}
	}
	parse = func() *sx {
		skip()
		if i >= len(s) {
			return nil
		}
		if s[i] == '(' {
			i++
			n := &sx{list: []*sx{}}
			for {
				skip()
				if i >= len(s) {
					return n
				}
				if s[i] == ')' {
					i++
					return n
				}
				c := parse()
				if c == nil {
					return n
				}
				n.list = append(n.list, c)
			}
		}
		j := i
		if s[i] == '|' {
			j = i + 1
			for j < len(s) && s[j] != '|' {
				j++
			}
			j++
		} else {
			for j < len(s) && s[j] != ' ' && s[j] != '\n' && s[j] != '(' && s[j] != ')' && s[j] != '\t' {
				j++
			}
		}
		if j > len(s) {
			j = len(s)
		}
		a := &sx{atom: s[i:j]}
		i = j
		return a
	}
	for {
		skip()
		if i >= len(s) {
			break
		}
		if s[i] == ')' {
			i++
			continue
		}
		n := parse()
		if n == nil {
			break
		}
		out = append(out, n)
	}
	return out
}

func (n *sx) String() string {
	if n.list == nil {
		return n.atom
	}
	s := "("
	for i, c := range n.list {
		if i > 0 {
			s += " "
		}
		s += c.String()
	}
	return s + ")"
}

// simpleValue renders integer/bool model values; "" if not simple.
func (n *sx) simpleValue() string {
	if n.list == nil {
		return n.atom
	}
	if len(n.list) == 2 && n.list[0].atom == "-" && n.list[1].list == nil {
		return "-" + n.list[1].atom
	}
	return ""
}
