package main

// Call-site rules:  //@ assert label: at pkg.Type.Method#k :: expr
// expr must hold in the state in which the k-th call (in instruction order) of that callee is
// reached, on every path. Used for protocol properties ("X is deleted only after Y").

import (
	"fmt"
	"go/types"
	"strings"

	"golang.org/x/tools/go/ssa"
)

func shortKey(key string) string {
	return key[strings.LastIndex(key, "/")+1:]
}

func (c *FnCtx) checkCallSiteAsserts(frame *Frame, st *State, in ssa.Instruction, key string) {
	c.callSiteClauses(frame, st, in, key, false, Val{})
}

// assumeAfterCall assumes the `assume_after` clauses attached to this call site, in the state after
// the call returned res.
func (c *FnCtx) assumeAfterCall(frame *Frame, st *State, in ssa.Instruction, key string, res Val) {
	c.callSiteClauses(frame, st, in, key, true, res)
}

func (c *FnCtx) hasAssumeAfter(frame *Frame) bool {
	for _, a := range frame.contract.Asserts {
		if a.Kind == "assume_after" {
			return true
		}
	}
	return false
}

func (c *FnCtx) callSiteClauses(frame *Frame, st *State, in ssa.Instruction, key string, after bool, res Val) {
	short := shortKey(key)
	var matching []*Clause
	for _, a := range frame.contract.Asserts {
		if (a.Kind == "assume_after") != after {
			continue
		}
		callee := a.At
		if i := strings.LastIndex(callee, "#"); i >= 0 {
			callee = callee[:i]
		}
		if callee == short || callee == key || strings.HasSuffix(short, "."+callee) {
			matching = append(matching, a)
		}
	}
	if len(matching) == 0 {
		return
	}
	ord := c.siteOrdinal(in, short)
	for _, a := range matching {
		want := -1
		if i := strings.LastIndex(a.At, "#"); i >= 0 {
			fmt.Sscanf(a.At[i+1:], "%d", &want)
		}
		if want >= 0 && want != ord {
			continue
		}
		env := &SpecEnv{c: c, st: st, heap: st.heap, vars: map[string]Val{}, pkg: frame.fn.Pkg.Pkg, frame: frame, at: in.Block()}
		names := frame.contract.Names
		old := &SpecEnv{c: c, st: st, heap: st.oldHeap, vars: map[string]Val{}, pkg: env.pkg, frame: frame, isOld: true, alloc: st.oldAlloc}
		for i, p := range frame.fn.Params {
			n := p.Name()
			if i < len(names) {
				n = names[i]
			}
			env.vars[n] = st.env[p]
			old.vars[n] = st.env[p]
		}
		env.old = old
		if l := innermostLoop(frame, in.Block()); l != nil {
			env.iterHeap = st.loopIter[frame.id*1000+l.Ord]
		}
		// the actual arguments of the call: arg0, arg1, ... in SSA order (for a method call of a
		// concrete type arg0 is the receiver; for an interface method call arg0 is the first argument)
		var cc *ssa.CallCommon
		switch y := in.(type) {
		case *ssa.Call:
			cc = &y.Call
		case *ssa.Defer:
			cc = &y.Call
		case *ssa.Go:
			cc = &y.Call
		}
		if snd, ok := in.(*ssa.Send); ok {
			// a channel send (`at builtin.send#k`): arg0 is the channel, arg1 the value sent
			env.vars["arg0"] = c.val(st, snd.Chan)
			env.vars["arg1"] = c.val(st, snd.X)
		}
		if cc != nil && cc.IsInvoke() {
			// an interface method call: recv is the interface value the method is invoked on
			if _, taken := env.vars["recv"]; !taken {
				env.vars["recv"] = c.val(st, cc.Value)
			}
		}
		if cc != nil {
			for i, av := range cc.Args {
				n := fmt.Sprintf("arg%d", i)
				if _, taken := env.vars[n]; !taken {
					env.vars[n] = c.val(st, av)
				}
			}
		}
		if after {
			// the results of the call: result (single) or result0, result1, ...
			if res.K == KTuple {
				for i, f := range res.F {
					env.vars[fmt.Sprintf("result%d", i)] = f
				}
			} else if res.K != KInvalid {
				env.vars["result"] = res
				env.vars["result0"] = res
			}
		}
		t, err := c.evalBool(env, a.Expr)
		if err != nil {
			c.errs = append(c.errs, fmt.Sprintf("%s:%d: assert %s: %v", a.File, a.Line, a.Label, err))
			continue
		}
		if a.Kind == "assume_after" {
			st.assume(t)
			c.note("assumed after the call " + a.At + " (" + a.Label + ": " + a.Text + "): what an external callee without a usable contract did; not checked")
			c.assertsSeen[a.Label] = true
			continue
		}
		if a.Kind == "lemma_at" {
			st.assume(t)
			c.note("assumed lemma " + a.Label + " at " + a.At + " (" + a.Text + "): a consequence of the facts in force there that the solvers cannot derive; not checked")
			c.assertsSeen[a.Label] = true
			continue
		}
		c.addOblig(st, fmt.Sprintf("callsite:%s#%d:%s", short, ord, a.Label), "callsite", t, a.Text, in.Pos())
		c.assertsSeen[a.Label] = true
	}
}

// siteOrdinal numbers the call sites of one callee in this function in instruction order.
func (c *FnCtx) siteOrdinal(in ssa.Instruction, short string) int {
	k := "site:" + short
	if c.siteOrd == nil {
		c.siteOrd = map[ssa.Instruction]int{}
	}
	if o, ok := c.siteOrd[in]; ok {
		return o
	}
	// ordinal = number of earlier call instructions to the same callee in block/instruction order
	n := 0
	for _, b := range in.Parent().Blocks {
		for _, x := range b.Instrs {
			if x == in {
				c.siteOrd[in] = n
				return n
			}
			var cc *ssa.CallCommon
			switch y := x.(type) {
			case *ssa.Call:
				cc = &y.Call
			case *ssa.Defer:
				cc = &y.Call
			case *ssa.Go:
				cc = &y.Call
			case *ssa.MakeSlice:
				if short == "builtin.make" {
					n++
				}
			case *ssa.Send:
				if short == "builtin.send" {
					n++
				}
			}
			if cc == nil {
				continue
			}
			if shortKey(callKeyOf(cc)) == short {
				n++
			}
		}
	}
	_ = k
	c.siteOrd[in] = n
	return n
}

// callKeyOf computes the contract key of a call (interface method or static callee).
func callKeyOf(call *ssa.CallCommon) string {
	if call.IsInvoke() {
		return ifaceMethodKey(call)
	}
	if b, ok := call.Value.(*ssa.Builtin); ok {
		return "builtin." + b.Name()
	}
	if f := call.StaticCallee(); f != nil {
		if f.Origin() != nil {
			return contractKeyForFunc(f.Origin())
		}
		return contractKeyForFunc(f)
	}
	return ""
}

func ifaceMethodKey(call *ssa.CallCommon) string {
	recv := types.Unalias(call.Value.Type())
	if n, ok := recv.(*types.Named); ok {
		if n.Obj().Pkg() != nil {
			return n.Obj().Pkg().Path() + "." + n.Obj().Name() + "." + call.Method.Name()
		}
		return n.Obj().Name() + "." + call.Method.Name()
	}
	return typeName(recv) + "." + call.Method.Name()
}

// checkAssertsSeen reports call-site rules whose call site no longer exists.
func (c *FnCtx) checkAssertsSeen() {
	for _, a := range c.contract.Asserts {
		if !c.assertsSeen[a.Label] {
			if a.Kind == "assert" {
				// the step the rule is about is gone from the function (removed, renamed or made
				// unreachable): the protocol the rule describes is no longer followed - a failed
				// obligation, not a tool problem
				o := &Oblig{Name: c.key + "#callsite:" + a.At + ":" + a.Label + ":missing", Kind: "callsite", Goal: "false",
					NDecl: -1, Pos: c.pos(c.fn.Pos()), Text: "the call " + a.At + " that rule " + a.Label + " is about is not reached anywhere in the function", Fn: c}
				c.obligs = append(c.obligs, o)
				continue
			}
			c.errs = append(c.errs, fmt.Sprintf("call-site rule %s: no call %s reached in the function", a.Label, a.At))
		}
	}
}
