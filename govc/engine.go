package main

// Loading /repo, contract discovery, type resolution.

import (
	"bufio"
	"fmt"
	"go/ast"
	"go/token"
	"go/types"
	"os"
	"path/filepath"
	"sort"
	"strings"

	"golang.org/x/tools/go/packages"
	"golang.org/x/tools/go/ssa"
	"golang.org/x/tools/go/ssa/ssautil"
)

const modulePath = "github.com/uber/kraken"

type Engine struct {
	repo     string
	fset     *token.FileSet
	pkgs     []*packages.Package
	allPkgs  map[string]*packages.Package
	typePkgs map[string]*types.Package
	prog     *ssa.Program
	cs       *ContractSet
	files    []string // contract files read
	loadSecs float64

	initOnly          map[*ssa.Global]bool
	storedOutsideInit map[*ssa.Global]bool
	scanned           map[*ssa.Function]bool
}

func (e *Engine) pkgOf(path string) *types.Package {
	if p, ok := e.allPkgs[path]; ok && p.Types != nil {
		return p.Types
	}
	return e.typePkgs[path]
}

func (e *Engine) importedPkg(from *types.Package, name string) *types.Package {
	// import aliases used in the package's source files
	if p, ok := e.allPkgs[from.Path()]; ok {
		for _, f := range p.Syntax {
			for _, im := range f.Imports {
				if im.Name != nil && im.Name.Name == name {
					path := strings.Trim(im.Path.Value, "\"")
					for _, imp := range from.Imports() {
						if imp.Path() == path {
							return imp
						}
					}
				}
			}
		}
	}
	for _, imp := range from.Imports() {
		if imp.Name() == name {
			return imp
		}
	}
	// any loaded package with that name (spec files are not bound by Go imports)
	var cands []string
	for path, p := range e.typePkgs {
		if p.Name() == name {
			cands = append(cands, path)
		}
	}
	sort.Strings(cands)
	for _, c := range cands {
		if strings.HasPrefix(c, modulePath) {
			return e.typePkgs[c]
		}
	}
	if len(cands) > 0 {
		return e.typePkgs[cands[0]]
	}
	return nil
}

// resolveType parses a type expression in the scope of pkg.
func (e *Engine) resolveType(pkg *types.Package, s string) types.Type {
	s = strings.TrimSpace(s)
	switch {
	case s == "":
		return nil
	case strings.HasPrefix(s, "*"):
		if t := e.resolveType(pkg, s[1:]); t != nil {
			return types.NewPointer(t)
		}
		return nil
	case strings.HasPrefix(s, "[]"):
		if t := e.resolveType(pkg, s[2:]); t != nil {
			return types.NewSlice(t)
		}
		return nil
	case strings.HasPrefix(s, "chan"):
		if t := e.resolveType(pkg, strings.TrimSpace(s[4:])); t != nil {
			return types.NewChan(types.SendRecv, t)
		}
		return nil
	case strings.HasPrefix(s, "map["):
		depth := 0
		for i := 3; i < len(s); i++ {
			if s[i] == '[' {
				depth++
			} else if s[i] == ']' {
				depth--
				if depth == 0 {
					k := e.resolveType(pkg, s[4:i])
					v := e.resolveType(pkg, s[i+1:])
					if k == nil || v == nil {
						return nil
					}
					return types.NewMap(k, v)
				}
			}
		}
		return nil
	case s == "struct{}":
		return types.NewStruct(nil, nil)
	case s == "error":
		return types.Universe.Lookup("error").Type()
	case s == "any":
		return types.Universe.Lookup("any").Type()
	}
	if o := types.Universe.Lookup(s); o != nil {
		if tn, ok := o.(*types.TypeName); ok {
			return tn.Type()
		}
	}
	if i := strings.Index(s, "."); i >= 0 {
		if pkg == nil {
			return nil
		}
		p := e.importedPkg(pkg, s[:i])
		if p == nil {
			return nil
		}
		if o := p.Scope().Lookup(s[i+1:]); o != nil {
			if tn, ok := o.(*types.TypeName); ok {
				return tn.Type()
			}
		}
		return nil
	}
	if pkg != nil {
		if o := pkg.Scope().Lookup(s); o != nil {
			if tn, ok := o.(*types.TypeName); ok {
				return tn.Type()
			}
		}
	}
	return nil
}

func loadEngine(repo string, patterns []string, externDir string, modfile string) (*Engine, error) {
	return loadEngineOverlay(repo, patterns, externDir, modfile, nil)
}

func loadEngineOverlay(repo string, patterns []string, externDir string, modfile string, overlay map[string][]byte) (*Engine, error) {
	e := &Engine{repo: repo, fset: token.NewFileSet(), allPkgs: map[string]*packages.Package{}, typePkgs: map[string]*types.Package{}, cs: newContractSet()}
	flags := []string{"-tags=verif"}
	if modfile != "" {
		flags = append(flags, "-modfile="+modfile)
	}
	// Phase 1: the kraken packages in the dependency closure of the patterns (names only).
	lcfg := &packages.Config{
		Mode:       packages.NeedName | packages.NeedImports | packages.NeedDeps,
		Dir:        repo,
		BuildFlags: flags,
		Env:        os.Environ(),
		Overlay:    overlay,
	}
	lpkgs, err := packages.Load(lcfg, patterns...)
	if err != nil {
		return nil, err
	}
	var roots []string
	seenRoot := map[string]bool{}
	packages.Visit(lpkgs, nil, func(p *packages.Package) {
		if strings.HasPrefix(p.PkgPath, modulePath) && !seenRoot[p.PkgPath] {
			seenRoot[p.PkgPath] = true
			roots = append(roots, p.PkgPath)
		}
	})
	sort.Strings(roots)
	// Phase 2: those packages from source (syntax + types); everything else from export data.
	cfg := &packages.Config{
		Mode:       packages.LoadSyntax,
		Dir:        repo,
		Fset:       e.fset,
		BuildFlags: flags,
		Env:        os.Environ(),
		Overlay:    overlay,
	}
	pkgs, err := packages.Load(cfg, roots...)
	if err != nil {
		return nil, err
	}
	var errs []string
	packages.Visit(pkgs, nil, func(p *packages.Package) {
		e.allPkgs[p.PkgPath] = p
		if strings.HasPrefix(p.PkgPath, modulePath) {
			for _, pe := range p.Errors {
				errs = append(errs, pe.Error())
			}
		}
	})
	if len(errs) > 0 {
		return nil, fmt.Errorf("package errors: %s", strings.Join(errs, "; "))
	}
	var walk func(tp *types.Package)
	walk = func(tp *types.Package) {
		if tp == nil || e.typePkgs[tp.Path()] != nil {
			return
		}
		e.typePkgs[tp.Path()] = tp
		for _, imp := range tp.Imports() {
			walk(imp)
		}
	}
	for _, p := range pkgs {
		walk(p.Types)
	}
	e.pkgs = pkgs
	prog, _ := ssautil.AllPackages(pkgs, ssa.GlobalDebug|ssa.InstantiateGenerics)
	prog.Build()
	e.prog = prog
	// contracts inside the repo
	for _, p := range e.allPkgs {
		if !strings.HasPrefix(p.PkgPath, modulePath) {
			continue
		}
		for i, f := range p.Syntax {
			name := p.CompiledGoFiles[i]
			if !strings.HasSuffix(name, "_verif.go") {
				continue
			}
			if err := e.readContractFile(name, p.PkgPath, f); err != nil {
				return nil, err
			}
		}
	}
	// extern contracts
	if externDir != "" {
		files, _ := filepath.Glob(filepath.Join(externDir, "*.spec"))
		sort.Strings(files)
		for _, f := range files {
			if err := e.readSpecFile(f); err != nil {
				return nil, err
			}
		}
	}
	return e, nil
}

func (e *Engine) readContractFile(name, pkgPath string, f *ast.File) error {
	var lines []string
	var nos []int
	for _, cg := range f.Comments {
		for _, cm := range cg.List {
			t := cm.Text
			var body string
			switch {
			case strings.HasPrefix(t, "//@"):
				body = t[3:]
			case strings.HasPrefix(t, "// @"):
				body = t[4:]
			default:
				continue
			}
			lines = append(lines, body)
			nos = append(nos, e.fset.Position(cm.Pos()).Line)
		}
	}
	e.files = append(e.files, name)
	return e.cs.parseContractText(name, pkgPath, lines, nos)
}

func (e *Engine) readSpecFile(name string) error {
	fh, err := os.Open(name)
	if err != nil {
		return err
	}
	defer fh.Close()
	var lines []string
	var nos []int
	sc := bufio.NewScanner(fh)
	n := 0
	for sc.Scan() {
		n++
		t := sc.Text()
		tt := strings.TrimSpace(t)
		if strings.HasPrefix(tt, "#") || tt == "" {
			continue
		}
		tt = strings.TrimPrefix(tt, "//@")
		lines = append(lines, tt)
		nos = append(nos, n)
	}
	e.files = append(e.files, name)
	before := map[string]bool{}
	for k := range e.cs.Funcs {
		before[k] = true
	}
	if err := e.cs.parseContractText(name, "", lines, nos); err != nil {
		return err
	}
	for k, fc := range e.cs.Funcs {
		if !before[k] {
			fc.Extern = true
			fc.Trusted = true
		}
	}
	return nil
}

// findFunction locates the ssa.Function for a contract key "pkgpath.Type.Method" / "pkgpath.Func".
func (e *Engine) findFunction(fc *FuncContract) *ssa.Function {
	p := e.allPkgs[fc.PkgPath]
	if p == nil {
		return nil
	}
	sp := e.prog.Package(p.Types)
	if sp == nil {
		return nil
	}
	key := fc.Key
	// closure: Outer$1
	closure := ""
	if i := strings.Index(key, "$"); i >= 0 {
		key, closure = key[:i], key[i+1:]
	}
	var fn *ssa.Function
	if i := strings.Index(key, "."); i >= 0 {
		tn, mn := key[:i], key[i+1:]
		o := p.Types.Scope().Lookup(tn)
		if o == nil {
			return nil
		}
		for _, t := range []types.Type{o.Type(), types.NewPointer(o.Type())} {
			ms := e.prog.MethodSets.MethodSet(t)
			for j := 0; j < ms.Len(); j++ {
				if ms.At(j).Obj().Name() == mn {
					f := e.prog.MethodValue(ms.At(j))
					if f != nil && f.Synthetic == "" {
						fn = f
					}
				}
			}
			if fn != nil {
				break
			}
		}
	} else {
		fn = sp.Func(key)
	}
	if fn == nil || closure == "" {
		return fn
	}
	for _, af := range fn.AnonFuncs {
		if strings.TrimPrefix(af.Name(), fn.Name()+"$") == closure {
			return af
		}
	}
	return nil
}

// initOnlyGlobals: package-level variables that are assigned only in package initialisation.
func (e *Engine) initOnlyGlobal(g *ssa.Global) bool {
	if e.initOnly == nil {
		e.initOnly = map[*ssa.Global]bool{}
		e.storedOutsideInit = map[*ssa.Global]bool{}
		for _, p := range e.prog.AllPackages() {
			for _, m := range p.Members {
				fn, ok := m.(*ssa.Function)
				if !ok {
					continue
				}
				e.scanGlobalStores(fn)
			}
			// methods
			for _, m := range p.Members {
				if t, ok := m.(*ssa.Type); ok {
					for _, typ := range []types.Type{t.Type(), types.NewPointer(t.Type())} {
						ms := e.prog.MethodSets.MethodSet(typ)
						for i := 0; i < ms.Len(); i++ {
							if f := e.prog.MethodValue(ms.At(i)); f != nil {
								e.scanGlobalStores(f)
							}
						}
					}
				}
			}
		}
	}
	return !e.storedOutsideInit[g]
}

func (e *Engine) scanGlobalStores(fn *ssa.Function) {
	if fn == nil || fn.Blocks == nil || e.scanned[fn] {
		return
	}
	if e.scanned == nil {
		e.scanned = map[*ssa.Function]bool{}
	}
	e.scanned[fn] = true
	isInit := fn.Name() == "init" || strings.HasPrefix(fn.Name(), "init#")
	for _, b := range fn.Blocks {
		for _, in := range b.Instrs {
			if s, ok := in.(*ssa.Store); ok && !isInit {
				if g, ok := s.Addr.(*ssa.Global); ok {
					e.storedOutsideInit[g] = true
				}
			}
			// address taken (passed around): treat as possibly stored
			if !isInit {
				for _, op := range in.Operands(nil) {
					if g, ok := (*op).(*ssa.Global); ok {
						switch u := in.(type) {
						case *ssa.UnOp:
							_ = u
						case *ssa.Store:
							if u.Addr != g {
								e.storedOutsideInit[g] = true
							}
						case *ssa.DebugRef:
						default:
							e.storedOutsideInit[g] = true
						}
					}
				}
			}
		}
	}
	for _, af := range fn.AnonFuncs {
		e.scanGlobalStores(af)
	}
}

// initFromErrorsNew: the package initialiser stores the result of errors.New / fmt.Errorf into g.
func (e *Engine) initFromErrorsNew(g *ssa.Global) bool {
	if g.Pkg == nil {
		return false
	}
	init := g.Pkg.Func("init")
	if init == nil || init.Blocks == nil {
		return false
	}
	for _, b := range init.Blocks {
		for _, in := range b.Instrs {
			s, ok := in.(*ssa.Store)
			if !ok || s.Addr != g {
				continue
			}
			v := s.Val
			if mi, ok := v.(*ssa.MakeInterface); ok {
				v = mi.X
			}
			if call, ok := v.(*ssa.Call); ok {
				if f := call.Call.StaticCallee(); f != nil {
					n := f.String()
					if n == "errors.New" || n == "fmt.Errorf" {
						return true
					}
				}
			}
		}
	}
	return false
}
