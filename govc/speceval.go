package main

// Evaluation of contract expressions in a symbolic state.

import (
	"fmt"
	"go/constant"
	"go/types"
	"strings"

	"golang.org/x/tools/go/ssa"
)

type SpecEnv struct {
	c     *FnCtx
	st    *State
	heap  map[string]string
	vars  map[string]Val
	old   *SpecEnv
	pkg   *types.Package
	frame *Frame
	at    *ssa.BasicBlock // program point for resolving locals
	loop  *Loop
	isOld bool
	alloc string
	depth int
	entryHeap map[string]string // heap at entry of the loop whose invariant is evaluated
	fvs     map[string]Val // captured variables of a closure under contract: name -> pointer to its cell
	foreign bool           // the contract evaluated belongs to a callee, not to frame.fn
	atcallHeap map[string]string // callback rule: the heap in which atcall(e) is evaluated
	iterHeap   map[string]string // call-site rule inside a loop: the heap at the start of the current iteration
}

func (e *SpecEnv) child() *SpecEnv {
	n := *e
	n.vars = make(map[string]Val, len(e.vars)+2)
	for k, v := range e.vars {
		n.vars[k] = v
	}
	return &n
}

func (c *FnCtx) evalBool(env *SpecEnv, e *Expr) (string, error) {
	v, err := c.eval(env, e)
	if err != nil {
		return "", err
	}
	if v.K != KBool {
		return "", fmt.Errorf("expression %s is not boolean", e)
	}
	return v.S, nil
}

var specInt = types.Typ[types.Int]

// mathInt is an unbounded spec integer.
func mathInt(s string) Val { return Val{T: types.Typ[types.UntypedInt], K: KInt, S: s} }

func (c *FnCtx) eval(env *SpecEnv, e *Expr) (Val, error) {
	switch e.Op {
	case "int":
		return mathInt(e.Name), nil
	case "bool":
		return boolVal(e.Name), nil
	case "str":
		return scalar(types.Typ[types.String], c.strConst(e.Name)), nil
	case "nil":
		return Val{T: types.Typ[types.UntypedNil], K: KRef, S: "0"}, nil
	case "id":
		return c.evalIdent(env, e.Name)
	case "old":
		if env.old == nil {
			return Val{}, fmt.Errorf("old() not available here")
		}
		o := env.old.child()
		// bound (quantified) variables stay visible inside old()
		for k, v := range env.vars {
			if _, ok := o.vars[k]; !ok {
				o.vars[k] = v // values (results, bound variables) are state-independent
			}
		}
		// locals are resolved at the same program point; memory-resident ones read the old heap
		o.frame, o.at, o.loop = env.frame, env.at, env.loop
		return c.eval(o, e.Args[0])
	case "un":
		if e.Name == "*" {
			return Val{}, fmt.Errorf("pointer type %s used as a value", e)
		}
		x, err := c.eval(env, e.Args[0])
		if err != nil {
			return Val{}, err
		}
		if e.Name == "!" {
			if x.K != KBool {
				return Val{}, fmt.Errorf("! on non-bool in %s", e)
			}
			return boolVal(not(x.S)), nil
		}
		return mathInt("(- " + x.S + ")"), nil
	case "ite":
		cnd, err := c.evalBool(env, e.Args[0])
		if err != nil {
			return Val{}, err
		}
		a, err := c.eval(env, e.Args[1])
		if err != nil {
			return Val{}, err
		}
		b, err := c.eval(env, e.Args[2])
		if err != nil {
			return Val{}, err
		}
		return mergeVals(cnd, a, b), nil
	case "bin":
		return c.evalBin(env, e)
	case "sel":
		return c.evalSel(env, e)
	case "idx":
		return c.evalIdx(env, e)
	case "slice":
		x, err := c.eval(env, e.Args[0])
		if err != nil {
			return Val{}, err
		}
		if x.K != KSlice {
			return Val{}, fmt.Errorf("slice expression on non-slice %s", e)
		}
		lo, hi := "0", x.Len()
		if e.Args[1] != nil {
			v, err := c.eval(env, e.Args[1])
			if err != nil {
				return Val{}, err
			}
			lo = v.S
		}
		if e.Args[2] != nil {
			v, err := c.eval(env, e.Args[2])
			if err != nil {
				return Val{}, err
			}
			hi = v.S
		}
		return sliceVal(x.T, x.Base(), plus(x.Off(), lo), minus(hi, lo), minus(x.Cap(), lo)), nil
	case "call":
		return c.evalCall(env, e)
	case "forall", "exists":
		sub := env.child()
		var binders []string
		var guards []string
		for _, bv := range e.Vars {
			t := c.eng.resolveType(env.pkg, bv.Type)
			if t == nil {
				return Val{}, fmt.Errorf("unknown type %q in quantifier", bv.Type)
			}
			if !(kindOf(t) != KStruct && kindOf(t) != KSlice && kindOf(t) != KTuple) {
				return Val{}, fmt.Errorf("quantified variable %s must be scalar", bv.Name)
			}
			c.nfresh++
			name := sym(fmt.Sprintf("q.%s!%d", bv.Name, c.nfresh))
			binders = append(binders, "("+name+" "+leafSort(kindOf(t))+")")
			v := scalar(t, name)
			if bv.Type == "int" {
				v = mathInt(name)
			}
			sub.vars[bv.Name] = v
			if sub.old != nil {
				so := sub.old.child()
				so.vars[bv.Name] = v
				sub.old = so
			}
			if kindOf(t) == KRef {
				// reference-typed bound variables range over the objects allocated in the state the
				// formula talks about (never over unallocated references)
				al := env.st.alloc
				if env.isOld && env.alloc != "" {
					al = env.alloc
				}
				guards = append(guards, sel(al, name))
				if pt, ok := t.Underlying().(*types.Pointer); ok {
					if tid := c.refTypeID(pt.Elem()); tid != "" {
						guards = append(guards, eq("(rtype "+name+")", tid))
					}
				}
			}
		}
		body, err := c.evalBool(sub, e.Args[0])
		if err != nil {
			return Val{}, err
		}
		q := e.Op
		if len(guards) > 0 {
			if q == "forall" {
				body = implies(and(guards...), body)
			} else {
				body = and(append(guards, body)...)
			}
		}
		return boolVal("(" + q + " (" + strings.Join(binders, " ") + ") " + body + ")"), nil
	}
	return Val{}, fmt.Errorf("cannot evaluate %s", e)
}

func (c *FnCtx) evalIdent(env *SpecEnv, name string) (Val, error) {
	if v, ok := env.vars[name]; ok {
		return v, nil
	}
	if strings.HasPrefix(name, "nseen") {
		var ord int
		if _, err := fmt.Sscanf(name[5:], "%d", &ord); err == nil {
			for _, it := range env.st.iters {
				if it.Ord == ord && it.IsMap {
					return mathInt(it.Count), nil
				}
			}
			return Val{}, fmt.Errorf("no map iterator for loop %d", ord)
		}
	}
	// captured variable of a closure: the name denotes the current content of its cell
	if env.fvs != nil {
		if p, ok := env.fvs[name]; ok {
			if a := c.addrOfPointer(p); a != nil {
				return c.loadAt(env.heap, a), nil
			}
		}
	} else if env.frame != nil && !env.foreign && env.st != nil {
		for _, fv := range env.frame.fn.FreeVars {
			if fv.Name() == name {
				if p, ok := env.st.env[fv]; ok {
					if a := c.addrOfPointer(p); a != nil {
						return c.loadAt(env.heap, a), nil
					}
				}
			}
		}
	}
	// local variable at the program point
	if env.frame != nil && env.at != nil {
		if v, ok := c.resolveLocal(env, name); ok {
			return v, nil
		}
	}
	// package-level constant or variable
	if env.pkg != nil {
		if o := env.pkg.Scope().Lookup(name); o != nil {
			switch x := o.(type) {
			case *types.Const:
				return c.constToVal(x)
			case *types.Var:
				a := &Addr{Space: "G", Key: env.pkg.Path() + "." + name, T: x.Type()}
				gv := c.loadAt(env.heap, a)
				if sp := c.fn.Prog.Package(env.pkg); sp != nil && env.st != nil {
					if g, ok := sp.Members[name].(*ssa.Global); ok {
						c.sentinelFacts(env.st, g, gv)
					}
				}
				return gv, nil
			}
		}
	}
	return Val{}, fmt.Errorf("unknown identifier %q", name)
}

func (c *FnCtx) constToVal(x *types.Const) (Val, error) {
	switch x.Val().Kind() {
	case constant.Int:
		s := x.Val().ExactString()
		if strings.HasPrefix(s, "-") {
			s = "(- " + s[1:] + ")"
		}
		return scalar(x.Type(), s), nil
	case constant.Bool:
		if constant.BoolVal(x.Val()) {
			return boolVal("true"), nil
		}
		return boolVal("false"), nil
	case constant.String:
		return scalar(x.Type(), c.strConst(constant.StringVal(x.Val()))), nil
	}
	return Val{}, fmt.Errorf("unsupported constant %s", x.Name())
}

// resolveLocal finds the SSA value of a source variable visible at env.at.
func (c *FnCtx) resolveLocal(env *SpecEnv, name string) (Val, bool) {
	fn := env.frame.fn
	var best ssa.Value
	var bestIsAddr bool
	bestDepth := -1
	consider := func(b *ssa.BasicBlock, idx int, v ssa.Value, isAddr bool) {
		if b != env.at && !b.Dominates(env.at) {
			return
		}
		if env.loop != nil && b == env.at {
			// at a loop header only phis (handled by vars) and values before it count
			return
		}
		d := domDepth(b)*10000 + idx
		if d > bestDepth {
			best, bestIsAddr, bestDepth = v, isAddr, d
		}
	}
	for _, b := range fn.Blocks {
		for i, in := range b.Instrs {
			switch x := in.(type) {
			case *ssa.DebugRef:
				if id := identName(x); id == name {
					consider(b, i, x.X, x.IsAddr)
				}
			case *ssa.Alloc:
				if x.Comment == name {
					consider(b, i, x, true)
				}
			}
		}
	}
	// a variable that lives in memory (address taken / captured): its current value is the content
	// of its cell; value DebugRefs of such a variable are snapshots that may be stale
	for _, b := range fn.Blocks {
		for _, in := range b.Instrs {
			if x, ok := in.(*ssa.Alloc); ok && x.Comment == name && !x.Heap || ok && x.Comment == name && x.Heap {
				if b == env.at || b.Dominates(env.at) {
					best, bestIsAddr = x, true
				}
			}
		}
	}
	if best == nil {
		return Val{}, false
	}
	v, ok := env.st.env[best]
	if !ok {
		if _, isConst := best.(*ssa.Const); isConst {
			v = c.val(env.st, best)
		} else {
			return Val{}, false
		}
	}
	if bestIsAddr {
		a := c.addrOfPointer(v)
		if a == nil {
			return Val{}, false
		}
		return c.loadAt(env.heap, a), true
	}
	return v, true
}

func domDepth(b *ssa.BasicBlock) int {
	d := 0
	for x := b.Idom(); x != nil; x = x.Idom() {
		d++
	}
	return d
}

func identName(d *ssa.DebugRef) string {
	if o := d.Object(); o != nil {
		return o.Name()
	}
	return ""
}

func isMathInt(v Val) bool {
	b, ok := v.T.(*types.Basic)
	return ok && b.Kind() == types.UntypedInt
}

func (c *FnCtx) evalBin(env *SpecEnv, e *Expr) (Val, error) {
	op := e.Name
	if op == "in" {
		k, err := c.eval(env, e.Args[0])
		if err != nil {
			return Val{}, err
		}
		m, err := c.eval(env, e.Args[1])
		if err != nil {
			return Val{}, err
		}
		if _, ok := m.T.Underlying().(*types.Map); !ok {
			return Val{}, fmt.Errorf("'in' needs a map on the right in %s", e)
		}
		d := c.heapGet(env.heap, arrName("D", mapKeyOf(m.T), "", "Bool"))
		kt := c.specKeyTerm(env, k)
		return boolVal(sel2(d, m.S, kt)), nil
	}
	a, err := c.eval(env, e.Args[0])
	if err != nil {
		return Val{}, err
	}
	b, err := c.eval(env, e.Args[1])
	if err != nil {
		return Val{}, err
	}
	switch op {
	case "&&", "||", "==>", "<==>":
		if a.K != KBool || b.K != KBool {
			return Val{}, fmt.Errorf("boolean operator %s on non-boolean operands in %s", op, e)
		}
		switch op {
		case "&&":
			return boolVal(and(a.S, b.S)), nil
		case "||":
			return boolVal(or(a.S, b.S)), nil
		case "==>":
			return boolVal(implies(a.S, b.S)), nil
		default:
			return boolVal(eq(a.S, b.S)), nil
		}
	case "==", "!=":
		// an interface compared with a value of a zero-size struct type (e.g. http.NoBody): the
		// value is boxed to the one interface value of that type
		if a.K == KIface && b.K == KStruct && len(b.F) == 0 {
			b = Val{T: a.T, K: KIface, S: c.zeroBox(b.T)}
		} else if b.K == KIface && a.K == KStruct && len(a.F) == 0 {
			a = Val{T: b.T, K: KIface, S: c.zeroBox(a.T)}
		}
		if op == "!=" {
			return boolVal(not(valEq(a, b))), nil
		}
		return boolVal(valEq(a, b)), nil
	}
	if !a.IsScalar() || !b.IsScalar() {
		return Val{}, fmt.Errorf("arithmetic on composite values in %s", e)
	}
	switch op {
	case "<", "<=", ">", ">=":
		return boolVal("(" + op + " " + a.S + " " + b.S + ")"), nil
	case "*":
		return mathInt(c.mulTerm(a.S, b.S)), nil
	case "+", "-":
		return mathInt("(" + op + " " + a.S + " " + b.S + ")"), nil
	case "/":
		return mathInt("(div " + a.S + " " + b.S + ")"), nil
	case "%":
		return mathInt("(mod " + a.S + " " + b.S + ")"), nil
	}
	return Val{}, fmt.Errorf("unknown operator %s", op)
}

func (c *FnCtx) specKeyTerm(env *SpecEnv, k Val) string {
	return c.keyTerm(env.st, k)
}

func (c *FnCtx) evalSel(env *SpecEnv, e *Expr) (Val, error) {
	// package-qualified identifier?
	if e.Args[0].Op == "id" {
		_, isVar := env.vars[e.Args[0].Name]
		if !isVar && env.frame != nil && env.at != nil && !env.foreign {
			// a local variable shadows a package of the same name (e.g. `hash`)
			if _, ok := c.resolveLocal(env, e.Args[0].Name); ok {
				isVar = true
			}
		}
		if !isVar && env.pkg != nil {
			if p := c.eng.importedPkg(env.pkg, e.Args[0].Name); p != nil {
				sub := *env
				sub.pkg = p
				sub.vars = map[string]Val{}
				sub.at = nil
				return c.evalIdent(&sub, e.Name)
			}
		}
	}
	x, err := c.eval(env, e.Args[0])
	if err != nil {
		return Val{}, err
	}
	return c.selectField(env, x, e.Name, e)
}

func (c *FnCtx) selectField(env *SpecEnv, x Val, name string, e *Expr) (Val, error) {
	if _, isAlias := x.T.(*types.Alias); isAlias {
		// os.FileInfo is io/fs.FileInfo: ghost fields are declared on the aliased type
		x.T = types.Unalias(x.T)
	}
	if x.K == KStruct {
		st := x.T.Underlying().(*types.Struct)
		for i := 0; i < st.NumFields(); i++ {
			if st.Field(i).Name() == name {
				return x.F[i], nil
			}
		}
		// promoted through embedded struct
		for i := 0; i < st.NumFields(); i++ {
			if st.Field(i).Embedded() && x.F[i].K == KStruct {
				if v, err := c.selectField(env, x.F[i], name, e); err == nil {
					return v, nil
				}
			}
		}
		return Val{}, fmt.Errorf("no field %s in %s", name, shortTypeName(x.T))
	}
	pt, ok := x.T.Underlying().(*types.Pointer)
	if !ok {
		// ghost field attached to a named scalar type (e.g. an interface such as clock.Clock)
		if _, isNamed := x.T.(*types.Named); isNamed && x.IsScalar() {
			if ft, ghost := c.fieldType(x.T, name); ft != nil && ghost {
				a := &Addr{Space: "F", Key: typeName(x.T), Idx: []string{x.S}, Path: "$" + name, T: ft}
				return c.loadAt(env.heap, a), nil
			}
		}
		return Val{}, fmt.Errorf("field selection %s on non-pointer, non-struct %s in %s", name, shortTypeName(x.T), e)
	}
	var base *Addr
	if x.A != nil {
		base = x.A
	} else {
		base = c.addrOfPointer(x)
	}
	if base == nil || kindOf(pt.Elem()) != KStruct {
		return Val{}, fmt.Errorf("field selection on unsupported pointer in %s", e)
	}
	ft, ghost := c.fieldType(pt.Elem(), name)
	if ft == nil {
		// promoted field through embedded struct value
		st := pt.Elem().Underlying().(*types.Struct)
		for i := 0; i < st.NumFields(); i++ {
			f := st.Field(i)
			if f.Embedded() && kindOf(f.Type()) == KStruct {
				if et, _ := c.fieldType(f.Type(), name); et != nil {
					a := &Addr{Space: base.Space, Key: base.Key, Idx: base.Idx, Path: joinPath(joinPath(base.Path, f.Name()), name), T: et}
					return c.loadAt(env.heap, a), nil
				}
			}
		}
		return Val{}, fmt.Errorf("no field %s in %s", name, shortTypeName(pt.Elem()))
	}
	path := name
	if ghost {
		path = "$" + name
	}
	a := &Addr{Space: base.Space, Key: base.Key, Idx: base.Idx, Path: joinPath(base.Path, path), T: ft}
	v := c.loadAt(env.heap, a)
	if !ghost && kindOf(ft) == KInt && env.st != nil && !strings.Contains(v.S, "|q.") {
		// type invariant of the location: a machine-integer field holds a value of its type
		// (closed terms only; bound variables may denote objects of other types)
		if f := rangeFact(ft, v.S); f != "" {
			env.st.assume(f)
		}
	}
	return v, nil
}

func (c *FnCtx) evalIdx(env *SpecEnv, e *Expr) (Val, error) {
	x, err := c.eval(env, e.Args[0])
	if err != nil {
		return Val{}, err
	}
	i, err := c.eval(env, e.Args[1])
	if err != nil {
		return Val{}, err
	}
	switch t := x.T.Underlying().(type) {
	case *types.Map:
		kt := c.specKeyTerm(env, i)
		a := &Addr{Space: "V", Key: mapKeyOf(x.T), Idx: []string{x.S, kt}, T: t.Elem()}
		d := c.heapGet(env.heap, arrName("D", mapKeyOf(x.T), "", "Bool"))
		// as in Go, a missing key reads as the zero value
		return mergeVals(sel2(d, x.S, kt), c.loadAt(env.heap, a), zeroVal(t.Elem())), nil
	case *types.Slice:
		if x.K != KSlice {
			return Val{}, fmt.Errorf("index on non-slice value in %s", e)
		}
		a := &Addr{Space: "M", Key: elemKey(t.Elem()), Idx: []string{x.Base(), slot(x.Off(), i.S)}, T: t.Elem()}
		return c.loadAt(env.heap, a), nil
	case *types.Basic:
		if kindOf(x.T) == KString {
			c.declareFun("str_at", []string{"Int", "Int"}, "Int")
			return mathInt("(str_at " + x.S + " " + i.S + ")"), nil
		}
	case *types.Array:
		c.declareFun("arr_at", []string{"Int", "Int"}, "Int")
		return scalar(t.Elem(), "(arr_at "+x.S+" "+i.S+")"), nil
	}
	return Val{}, fmt.Errorf("cannot index %s in %s", shortTypeName(x.T), e)
}

func (c *FnCtx) evalCall(env *SpecEnv, e *Expr) (Val, error) {
	var args []Val
	evalArgs := func() error {
		for _, a := range e.Args {
			v, err := c.eval(env, a)
			if err != nil {
				return err
			}
			args = append(args, v)
		}
		return nil
	}
	switch e.Name {
	case "entry":
		// entry(e): e evaluated in the heap at the entry of the enclosing loop
		if len(e.Args) != 1 {
			return Val{}, fmt.Errorf("entry(e) takes one argument")
		}
		if env.entryHeap == nil {
			return Val{}, fmt.Errorf("entry(...) is only available in loop invariants")
		}
		sub := env.child()
		sub.heap = env.entryHeap
		return c.eval(sub, e.Args[0])
	case "iterstart":
		// iterstart(e), in a call-site rule inside a loop: e evaluated in the heap in which the
		// current iteration of the innermost enclosing loop started (locals keep their current value)
		if len(e.Args) != 1 {
			return Val{}, fmt.Errorf("iterstart(e) takes one argument")
		}
		if env.iterHeap == nil {
			return Val{}, fmt.Errorf("iterstart(...) is only available in call-site rules inside a loop")
		}
		sub := env.child()
		sub.heap = env.iterHeap
		return c.eval(sub, e.Args[0])
	case "atcall":
		// atcall(e), in the invariant of a closure used as a callback: the value e had when the
		// function that receives the closure was called. At the caller (callback rule) it is e in
		// the pre-state of that call; while the closure itself is verified it is a rigid unknown -
		// the same constant at entry and at every return.
		if len(e.Args) != 1 {
			return Val{}, fmt.Errorf("atcall(e) takes one argument")
		}
		if env.atcallHeap != nil {
			sub := env.child()
			sub.heap = env.atcallHeap
			return c.eval(sub, e.Args[0])
		}
		v, err := c.eval(env, e.Args[0])
		if err != nil {
			return Val{}, err
		}
		if !v.IsScalar() {
			return Val{}, fmt.Errorf("atcall(e) needs a scalar expression")
		}
		n := sym("atcall|" + e.Args[0].String())
		c.declare(n, leafSort(v.K))
		v.S, v.A = n, nil
		return v, nil
	case "unlocked":
		// unlocked(e): e evaluated after everything guarded by a mutex that is not held has been
		// given an arbitrary value (interference by other threads between critical sections)
		if len(e.Args) != 1 {
			return Val{}, fmt.Errorf("unlocked(e) takes one argument")
		}
		sub := env.child()
		sub.heap = c.interferenceHeap(env)
		return c.eval(sub, e.Args[0])
	case "sent":
		// sent(ch): number of messages sent on channel ch so far (ghost)
		if err := evalArgs(); err != nil {
			return Val{}, err
		}
		if len(args) != 1 {
			return Val{}, fmt.Errorf("sent(ch) takes one argument")
		}
		return mathInt(sel(c.heapGet(env.heap, arrName("S", "sent", "", "Int")), args[0].S)), nil
	case "len":
		if err := evalArgs(); err != nil {
			return Val{}, err
		}
		a := args[0]
		switch {
		case a.K == KSlice:
			return mathInt(a.Len()), nil
		case a.K == KString:
			return mathInt("(strlen " + a.S + ")"), nil
		default:
			if _, ok := a.T.Underlying().(*types.Map); ok {
				l := c.heapGet(env.heap, arrName("L", "", "", "Int"))
				return mathInt(sel(l, a.S)), nil
			}
		}
		return Val{}, fmt.Errorf("len of unsupported value in %s", e)
	case "cap":
		if err := evalArgs(); err != nil {
			return Val{}, err
		}
		if args[0].K == KSlice {
			return mathInt(args[0].Cap()), nil
		}
		return Val{}, fmt.Errorf("cap of non-slice")
	case "float_lt":
		// float_lt(x, y): the (uninterpreted) order the generator uses for x < y on floats
		if err := evalArgs(); err != nil {
			return Val{}, err
		}
		if len(args) != 2 {
			return Val{}, fmt.Errorf("float_lt takes two arguments")
		}
		c.declareFun("float_lt", []string{"Int", "Int"}, "Bool")
		return boolVal("(float_lt " + args[0].S + " " + args[1].S + ")"), nil
	case "min", "max":
		if err := evalArgs(); err != nil {
			return Val{}, err
		}
		r := args[0].S
		for _, a := range args[1:] {
			if e.Name == "min" {
				r = ite("(<= "+r+" "+a.S+")", r, a.S)
			} else {
				r = ite("(>= "+r+" "+a.S+")", r, a.S)
			}
		}
		return mathInt(r), nil
	case "fresh":
		// the object did not exist at function entry
		if err := evalArgs(); err != nil {
			return Val{}, err
		}
		al := env.st.oldAlloc
		if env.old != nil && env.old.alloc != "" {
			al = env.old.alloc
		}
		s := args[0].S
		if args[0].K == KSlice {
			s = args[0].Base()
		}
		return boolVal(not(sel(al, s))), nil
	case "allocated":
		if err := evalArgs(); err != nil {
			return Val{}, err
		}
		s := args[0].S
		if args[0].K == KSlice {
			s = args[0].Base()
		}
		al := env.st.alloc
		if env.isOld && env.alloc != "" {
			al = env.alloc
		}
		// an allocated object of a tagged static type carries that run-time type
		typed := "true"
		if args[0].K == KRef {
			if pt, ok := args[0].T.Underlying().(*types.Pointer); ok {
				if tid := c.refTypeID(pt.Elem()); tid != "" {
					typed = eq("(rtype "+s+")", tid)
				}
			} else if _, ok := args[0].T.Underlying().(*types.Map); ok {
				typed = eq("(rtype "+s+")", c.refTypeID(args[0].T))
			}
		}
		return boolVal(and(sel(al, s), typed)), nil
	case "base":
		if err := evalArgs(); err != nil {
			return Val{}, err
		}
		if args[0].K == KSlice {
			return mathInt(args[0].Base()), nil
		}
		return Val{}, fmt.Errorf("base of non-slice")
	case "deref":
		// deref(p): the value p points to, in the heap of the evaluation context
		if err := evalArgs(); err != nil {
			return Val{}, err
		}
		if len(args) != 1 {
			return Val{}, fmt.Errorf("deref(p) takes one argument")
		}
		a := c.addrOfPointer(args[0])
		if a == nil {
			return Val{}, fmt.Errorf("deref of non-pointer")
		}
		return c.loadAt(env.heap, a), nil
	case "as":
		// as(T, x): x viewed at static type T (interface conversions keep the same value)
		if len(e.Args) != 2 {
			return Val{}, fmt.Errorf("as(T, x) takes a type and a value")
		}
		t := c.eng.resolveType(env.pkg, e.Args[0].String())
		if t == nil {
			return Val{}, fmt.Errorf("as: unknown type %s", e.Args[0])
		}
		v, err := c.eval(env, e.Args[1])
		if err != nil {
			return Val{}, err
		}
		return retypeSpec(v, t), nil
	case "offset":
		if err := evalArgs(); err != nil {
			return Val{}, err
		}
		if args[0].K == KSlice {
			return mathInt(args[0].Off()), nil
		}
		return Val{}, fmt.Errorf("offset of non-slice")
	case "box":
		if err := evalArgs(); err != nil {
			return Val{}, err
		}
		if len(args) != 1 || !args[0].IsScalar() {
			return Val{}, fmt.Errorf("box needs one scalar argument")
		}
		bx, _ := c.declareBox(args[0].T)
		return Val{T: types.Universe.Lookup("any").Type(), K: KIface, S: "(" + bx + " " + args[0].S + ")"}, nil
	case "typed":
		// typed(x): x (a pointer or a map) is nil or refers to an object of its static type
		if err := evalArgs(); err != nil {
			return Val{}, err
		}
		if len(args) != 1 || args[0].K != KRef {
			return Val{}, fmt.Errorf("typed(x) needs a pointer or a map")
		}
		var tid string
		if pt, ok := args[0].T.Underlying().(*types.Pointer); ok {
			tid = c.refTypeID(pt.Elem())
		} else if _, ok := args[0].T.Underlying().(*types.Map); ok {
			tid = c.refTypeID(args[0].T)
		}
		if tid == "" {
			return Val{}, fmt.Errorf("typed(x): no object type for %s", args[0].T)
		}
		return boolVal(or(eq(args[0].S, "0"), eq("(rtype "+args[0].S+")", tid))), nil
	case "mk":
		// mk(T, f1, f2, ...): the value of struct type T whose fields (in declaration order) are f1, f2, ...
		if len(e.Args) < 2 {
			return Val{}, fmt.Errorf("mk(T, fields...) needs a struct type and its field values")
		}
		t := c.eng.resolveType(env.pkg, e.Args[0].String())
		if t == nil {
			return Val{}, fmt.Errorf("mk: unknown type %s", e.Args[0])
		}
		stt, ok := t.Underlying().(*types.Struct)
		if !ok || stt.NumFields() != len(e.Args)-1 {
			return Val{}, fmt.Errorf("mk: %s is not a struct with %d fields", e.Args[0], len(e.Args)-1)
		}
		sv := Val{T: t, K: KStruct}
		for i := 1; i < len(e.Args); i++ {
			fv, err := c.eval(env, e.Args[i])
			if err != nil {
				return Val{}, err
			}
			sv.F = append(sv.F, retype(fv, stt.Field(i-1).Type()))
		}
		return sv, nil
	case "unbox":
		// unbox(v, T)
		if len(e.Args) != 2 {
			return Val{}, fmt.Errorf("unbox(v, T) needs a value and a type")
		}
		v, err := c.eval(env, e.Args[0])
		if err != nil {
			return Val{}, err
		}
		t := c.eng.resolveType(env.pkg, e.Args[1].String())
		if t == nil {
			return Val{}, fmt.Errorf("unbox: unknown type %s", e.Args[1])
		}
		_, ub := c.declareBox(t)
		return scalar(t, "("+ub+" "+v.S+")"), nil
	case "dyntype":
		if err := evalArgs(); err != nil {
			return Val{}, err
		}
		c.declareFun("dyntype", []string{"Int"}, "Int")
		return mathInt("(dyntype " + args[0].S + ")"), nil
	case "typeid":
		if len(e.Args) == 1 && (e.Args[0].Op == "id" || e.Args[0].Op == "sel" || e.Args[0].Op == "un") {
			ts := e.Args[0].String()
			t := c.eng.resolveType(env.pkg, ts)
			if t == nil {
				return Val{}, fmt.Errorf("typeid: unknown type %s", ts)
			}
			return mathInt(c.typeID(t)), nil
		}
		return Val{}, fmt.Errorf("typeid needs a type name")
	}
	// iterator views: seenK(x), nseenK
	if strings.HasPrefix(e.Name, "seen") || strings.HasPrefix(e.Name, "nseen") {
		var ord int
		isN := strings.HasPrefix(e.Name, "nseen")
		if _, err := fmt.Sscanf(strings.TrimPrefix(strings.TrimPrefix(e.Name, "n"), "seen"), "%d", &ord); err == nil {
			for _, it := range env.st.iters {
				if it.Ord == ord && it.IsMap {
					if isN {
						return mathInt(it.Count), nil
					}
					if err := evalArgs(); err != nil {
						return Val{}, err
					}
					return boolVal(sel(it.V, c.specKeyTerm(env, args[0]))), nil
				}
			}
			return Val{}, fmt.Errorf("no map iterator for loop %d", ord)
		}
	}
	// ghost sums over maps: NAME(mapexpr)
	for _, gs := range c.eng.cs.Sums {
		if gs.Name == e.Name {
			if err := evalArgs(); err != nil {
				return Val{}, err
			}
			if len(args) != 1 {
				return Val{}, fmt.Errorf("ghost sum %s takes the map as its argument", gs.Name)
			}
			c.usedSums[gs.Name] = true
			return mathInt(sel(c.heapGet(env.heap, sumArr(gs)), args[0].S)), nil
		}
	}
	// user-defined spec functions
	pp := ""
	if env.pkg != nil {
		pp = env.pkg.Path()
	}
	sf, lerr := c.eng.cs.lookupSpecFunc(e.Name, pp)
	if lerr != nil {
		return Val{}, lerr
	}
	if sf != nil {
		if err := evalArgs(); err != nil {
			return Val{}, err
		}
		return c.applySpecFunc(env, sf, args, e)
	}
	return Val{}, fmt.Errorf("unknown spec function %q", e.Name)
}

func (c *FnCtx) applySpecFunc(env *SpecEnv, sf *SpecFunc, args []Val, e *Expr) (Val, error) {
	if len(args) != len(sf.Params) {
		return Val{}, fmt.Errorf("spec function %s: want %d args, got %d", sf.Name, len(sf.Params), len(args))
	}
	pkg := c.eng.pkgOf(sf.PkgPath)
	if pkg == nil {
		pkg = env.pkg
	}
	if sf.Body != nil {
		if env.depth > 8 {
			return Val{}, fmt.Errorf("spec function recursion too deep in %s", sf.Name)
		}
		sub := &SpecEnv{c: c, st: env.st, heap: env.heap, vars: map[string]Val{}, pkg: pkg, old: nil, isOld: env.isOld, alloc: env.alloc, depth: env.depth + 1}
		if env.old != nil {
			o := &SpecEnv{c: c, st: env.st, heap: env.old.heap, vars: map[string]Val{}, pkg: pkg, isOld: true, alloc: env.old.alloc, depth: env.depth + 1}
			sub.old = o
		}
		for i, p := range sf.Params {
			v := args[i]
			if t := c.eng.resolveType(pkg, p.Type); t != nil && p.Type != "int" {
				v = retypeSpec(v, t)
			}
			sub.vars[p.Name] = v
			if sub.old != nil {
				sub.old.vars[p.Name] = v
			}
		}
		return c.eval(sub, sf.Body)
	}
	// uninterpreted function over scalar leaves
	var leaves, sorts []string
	for _, a := range args {
		walkLeaves(a, "", func(p string, l Val) { leaves = append(leaves, l.S); sorts = append(sorts, leafSort(l.K)) })
	}
	rt := c.eng.resolveType(pkg, sf.Result)
	if rt == nil {
		return Val{}, fmt.Errorf("spec function %s: unknown result type %s", sf.Name, sf.Result)
	}
	fn := sym("spec|" + sf.Name)
	if len(c.eng.cs.SpecFuncByName[sf.Name]) > 1 {
		fn = sym("spec|" + sf.PkgPath + "|" + sf.Name)
	}
	c.declareFun(fn, sorts, leafSort(kindOf(rt)))
	c.usedSpecFns[sf.Name] = true
	t := fn
	if len(leaves) > 0 {
		t = "(" + fn + " " + strings.Join(leaves, " ") + ")"
	}
	if sf.Result == "int" {
		return mathInt(t), nil
	}
	return scalar(rt, t), nil
}

func retypeSpec(v Val, t types.Type) Val {
	if v.IsScalar() && kindOf(t) != KStruct && kindOf(t) != KSlice {
		n := v
		n.T = t
		n.K = kindOf(t)
		return n
	}
	return v
}
