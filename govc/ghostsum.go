package main

// Ghost sums over maps:  //@ ghostsum NAME over MAPTYPE of EXPR
// S|NAME[m] is the sum of EXPR(v) over the entries (k, v) of map m. The generator maintains it at
// every map update, and supplies the facts S[m] >= 0 and "a member is at most the sum". EXPR must
// be non-negative (a length); it is evaluated on the stored value, so the summand of a stored
// entry must not change while it is in the map (listed as an assumption).

import (
	"go/types"
)

type GhostSum struct {
	Name    string
	MapType string
	Expr    *Expr
	PkgPath string
}

func (c *FnCtx) sumsFor(mapType types.Type) []*GhostSum {
	var out []*GhostSum
	key := mapKeyOf(mapType)
	for _, gs := range c.eng.cs.Sums {
		pkg := c.eng.pkgOf(gs.PkgPath)
		t := c.eng.resolveType(pkg, gs.MapType)
		if t != nil && mapKeyOf(t) == key {
			out = append(out, gs)
		}
	}
	return out
}

func sumArr(gs *GhostSum) string { return arrName("S", gs.Name, "", "Int") }

// summand evaluates the summand expression for key/value in the given heap.
func (c *FnCtx) summand(st *State, heap map[string]string, gs *GhostSum, k string, kt types.Type, v Val) (string, bool) {
	env := &SpecEnv{c: c, st: st, heap: heap, vars: map[string]Val{"v": v, "k": scalar(kt, k)}, pkg: c.eng.pkgOf(gs.PkgPath)}
	r, err := c.eval(env, gs.Expr)
	if err != nil {
		c.errs = append(c.errs, "ghostsum "+gs.Name+": "+err.Error())
		return "0", false
	}
	return r.S, true
}

// ghostMapHook maintains the ghost sums of a map at an update (called before the update).
func (c *FnCtx) ghostMapHook(st *State, mapType types.Type, m, k, present string, v *Val, op string) {
	sums := c.sumsFor(mapType)
	if len(sums) == 0 {
		return
	}
	mt := mapType.Underlying().(*types.Map)
	old := c.loadAt(st.heap, &Addr{Space: "V", Key: mapKeyOf(mapType), Idx: []string{m, k}, T: mt.Elem()})
	for _, gs := range sums {
		name := sumArr(gs)
		arr := c.heapGet(st.heap, name)
		tOld, _ := c.summand(st, st.heap, gs, k, mt.Key(), old)
		tNew := "0"
		if v != nil {
			tNew, _ = c.summand(st, st.heap, gs, k, mt.Key(), *v)
			st.assume("(>= " + tNew + " 0)")
		}
		st.assume(implies(present, and("(>= "+tOld+" 0)", "(<= "+tOld+" "+sel(arr, m)+")")))
		st.assume("(>= " + sel(arr, m) + " 0)")
		c.heapSet(st, name, sto(arr, m, "(+ (- "+sel(arr, m)+" "+ite(present, tOld, "0")+") "+tNew+")"))
		c.usedSums[gs.Name] = true
	}
}

// sumFactsAtLookup: a present member's summand is between 0 and the sum.
func (c *FnCtx) sumFactsAtLookup(st *State, mapType types.Type, m, k, present string, val Val) {
	sums := c.sumsFor(mapType)
	if len(sums) == 0 {
		return
	}
	mt := mapType.Underlying().(*types.Map)
	for _, gs := range sums {
		arr := c.heapGet(st.heap, sumArr(gs))
		t, ok := c.summand(st, st.heap, gs, k, mt.Key(), val)
		if !ok {
			continue
		}
		st.assume("(>= " + sel(arr, m) + " 0)")
		st.assume(implies(present, and("(>= "+t+" 0)", "(<= "+t+" "+sel(arr, m)+")")))
		c.usedSums[gs.Name] = true
	}
}

// havocSums havocs the ghost sums of one map (when its contents are havoc'd).
func (c *FnCtx) havocSums(st *State, mapType types.Type, m string) {
	for _, gs := range c.sumsFor(mapType) {
		name := sumArr(gs)
		nv := c.fresh("havoc.sum", "Int")
		st.assume("(>= " + nv + " 0)")
		c.heapSet(st, name, sto(c.heapGet(st.heap, name), m, nv))
	}
}
