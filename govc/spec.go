package main

// Contract language: clause parser and expression parser (Gobra-style //@ comments).

import (
	"fmt"
	"strconv"
	"strings"
	"unicode"
)

// ---- expressions --------------------------------------------------------

type Expr struct {
	Op   string  // "id","int","str","bool","nil","un","bin","call","sel","idx","slice","old","forall","exists","ite"
	Name string  // identifier / operator / field name / callee
	Args []*Expr // operands
	Vars []BoundVar
	Src  string
}

type BoundVar struct {
	Name string
	Type string
}

func (e *Expr) String() string {
	if e == nil {
		return "<nil>"
	}
	switch e.Op {
	case "id", "int", "bool", "nil":
		return e.Name
	case "str":
		return strconv.Quote(e.Name)
	case "un":
		return e.Name + e.Args[0].String()
	case "bin":
		return "(" + e.Args[0].String() + " " + e.Name + " " + e.Args[1].String() + ")"
	case "call":
		var as []string
		for _, a := range e.Args {
			as = append(as, a.String())
		}
		return e.Name + "(" + strings.Join(as, ", ") + ")"
	case "sel":
		return e.Args[0].String() + "." + e.Name
	case "idx":
		return e.Args[0].String() + "[" + e.Args[1].String() + "]"
	case "slice":
		return e.Args[0].String() + "[" + e.Args[1].String() + ":" + e.Args[2].String() + "]"
	case "old":
		return "old(" + e.Args[0].String() + ")"
	case "ite":
		return "(" + e.Args[0].String() + " ? " + e.Args[1].String() + " : " + e.Args[2].String() + ")"
	case "forall", "exists":
		var vs []string
		for _, v := range e.Vars {
			vs = append(vs, v.Name+" "+v.Type)
		}
		return "(" + e.Op + " " + strings.Join(vs, ", ") + " :: " + e.Args[0].String() + ")"
	}
	return "?" + e.Op
}

type tok struct {
	kind string // "id","int","str","op","eof"
	text string
}

func lex(s string) ([]tok, error) {
	var toks []tok
	i := 0
	for i < len(s) {
		c := s[i]
		switch {
		case c == ' ' || c == '\t' || c == '\n':
			i++
		case unicode.IsLetter(rune(c)) || c == '_' || c == '$':
			j := i
			for j < len(s) && (unicode.IsLetter(rune(s[j])) || unicode.IsDigit(rune(s[j])) || s[j] == '_' || s[j] == '$') {
				j++
			}
			toks = append(toks, tok{"id", s[i:j]})
			i = j
		case unicode.IsDigit(rune(c)):
			j := i
			for j < len(s) && (unicode.IsDigit(rune(s[j])) || s[j] == '_') {
				j++
			}
			toks = append(toks, tok{"int", strings.ReplaceAll(s[i:j], "_", "")})
			i = j
		case c == '"':
			j := i + 1
			for j < len(s) && s[j] != '"' {
				if s[j] == '\\' {
					j++
				}
				j++
			}
			if j >= len(s) {
				return nil, fmt.Errorf("unterminated string in %q", s)
			}
			str, err := strconv.Unquote(s[i : j+1])
			if err != nil {
				return nil, err
			}
			toks = append(toks, tok{"str", str})
			i = j + 1
		default:
			ops := []string{"<==>", "==>", "::", "==", "!=", "<=", ">=", "&&", "||", "<", ">", "+", "-", "*", "/", "%", "!", "(", ")", "[", "]", ",", ".", ":", "?"}
			found := false
			for _, op := range ops {
				if strings.HasPrefix(s[i:], op) {
					toks = append(toks, tok{"op", op})
					i += len(op)
					found = true
					break
				}
			}
			if !found {
				return nil, fmt.Errorf("unexpected character %q in %q", c, s)
			}
		}
	}
	toks = append(toks, tok{"eof", ""})
	return toks, nil
}

type parser struct {
	toks []tok
	pos  int
	src  string
}

func parseExpr(s string) (*Expr, error) {
	toks, err := lex(s)
	if err != nil {
		return nil, err
	}
	p := &parser{toks: toks, src: s}
	var e *Expr
	func() {
		defer func() {
			if r := recover(); r != nil {
				err = fmt.Errorf("parse error in %q: %v", s, r)
			}
		}()
		e = p.quant()
		if p.peek().kind != "eof" {
			panic(fmt.Sprintf("trailing token %q", p.peek().text))
		}
	}()
	if e != nil {
		e.Src = s
	}
	return e, err
}

func (p *parser) peek() tok { return p.toks[p.pos] }
func (p *parser) next() tok  { t := p.toks[p.pos]; p.pos++; return t }
func (p *parser) isOp(s string) bool {
	t := p.peek()
	return t.kind == "op" && t.text == s
}
func (p *parser) expect(s string) {
	if !p.isOp(s) {
		panic(fmt.Sprintf("expected %q, got %q", s, p.peek().text))
	}
	p.pos++
}

func (p *parser) quant() *Expr {
	t := p.peek()
	if t.kind == "id" && (t.text == "forall" || t.text == "exists") {
		p.next()
		var vars []BoundVar
		for {
			name := p.next()
			if name.kind != "id" {
				panic("expected bound variable name")
			}
			typ := p.typeStr()
			vars = append(vars, BoundVar{name.text, typ})
			if p.isOp(",") {
				p.next()
				continue
			}
			break
		}
		p.expect("::")
		body := p.quant()
		return &Expr{Op: t.text, Vars: vars, Args: []*Expr{body}}
	}
	return p.ternary()
}

// typeStr reads a type expression up to "," or "::" at depth 0.
func (p *parser) typeStr() string {
	var sb strings.Builder
	depth := 0
	for {
		t := p.peek()
		if t.kind == "eof" {
			break
		}
		if depth == 0 && t.kind == "op" && (t.text == "," || t.text == "::") {
			break
		}
		if t.kind == "op" && (t.text == "[" || t.text == "(") {
			depth++
		}
		if t.kind == "op" && (t.text == "]" || t.text == ")") {
			depth--
		}
		sb.WriteString(t.text)
		p.next()
	}
	return sb.String()
}

func (p *parser) ternary() *Expr {
	c := p.iff()
	if p.isOp("?") {
		p.next()
		a := p.quant()
		p.expect(":")
		b := p.quant()
		return &Expr{Op: "ite", Args: []*Expr{c, a, b}}
	}
	return c
}

func (p *parser) iff() *Expr {
	l := p.impl()
	for p.isOp("<==>") {
		p.next()
		r := p.impl()
		l = &Expr{Op: "bin", Name: "<==>", Args: []*Expr{l, r}}
	}
	return l
}

func (p *parser) impl() *Expr {
	l := p.orE()
	if p.isOp("==>") {
		p.next()
		var r *Expr
		if t := p.peek(); t.kind == "id" && (t.text == "forall" || t.text == "exists") {
			r = p.quant()
		} else {
			r = p.impl()
		}
		return &Expr{Op: "bin", Name: "==>", Args: []*Expr{l, r}}
	}
	return l
}

func (p *parser) orE() *Expr {
	l := p.andE()
	for p.isOp("||") {
		p.next()
		r := p.andE()
		l = &Expr{Op: "bin", Name: "||", Args: []*Expr{l, r}}
	}
	return l
}

func (p *parser) andE() *Expr {
	l := p.cmp()
	for p.isOp("&&") {
		p.next()
		r := p.cmp()
		l = &Expr{Op: "bin", Name: "&&", Args: []*Expr{l, r}}
	}
	return l
}

func (p *parser) cmp() *Expr {
	l := p.add()
	for {
		t := p.peek()
		if t.kind == "op" && (t.text == "==" || t.text == "!=" || t.text == "<" || t.text == "<=" || t.text == ">" || t.text == ">=") {
			p.next()
			r := p.add()
			l = &Expr{Op: "bin", Name: t.text, Args: []*Expr{l, r}}
			continue
		}
		if t.kind == "id" && t.text == "in" {
			p.next()
			r := p.add()
			l = &Expr{Op: "bin", Name: "in", Args: []*Expr{l, r}}
			continue
		}
		return l
	}
}

func (p *parser) add() *Expr {
	l := p.mul()
	for p.isOp("+") || p.isOp("-") {
		op := p.next().text
		r := p.mul()
		l = &Expr{Op: "bin", Name: op, Args: []*Expr{l, r}}
	}
	return l
}

func (p *parser) mul() *Expr {
	l := p.unary()
	for p.isOp("*") || p.isOp("/") || p.isOp("%") {
		op := p.next().text
		r := p.unary()
		l = &Expr{Op: "bin", Name: op, Args: []*Expr{l, r}}
	}
	return l
}

func (p *parser) unary() *Expr {
	if p.isOp("*") {
		// pointer type written as an argument of as(T, x) / unbox(v, T): kept as text
		p.next()
		x := p.unary()
		return &Expr{Op: "un", Name: "*", Args: []*Expr{x}}
	}
	if p.isOp("!") || p.isOp("-") {
		op := p.next().text
		x := p.unary()
		return &Expr{Op: "un", Name: op, Args: []*Expr{x}}
	}
	return p.postfix()
}

func (p *parser) postfix() *Expr {
	e := p.primary()
	for {
		switch {
		case p.isOp("."):
			p.next()
			n := p.next()
			if n.kind != "id" {
				panic("expected field name after '.'")
			}
			e = &Expr{Op: "sel", Name: n.text, Args: []*Expr{e}}
		case p.isOp("["):
			p.next()
			var lo, hi *Expr
			if !p.isOp(":") {
				lo = p.quant()
			}
			if p.isOp(":") {
				p.next()
				if !p.isOp("]") {
					hi = p.quant()
				}
				p.expect("]")
				e = &Expr{Op: "slice", Args: []*Expr{e, lo, hi}}
			} else {
				p.expect("]")
				e = &Expr{Op: "idx", Args: []*Expr{e, lo}}
			}
		case p.isOp("(") && (e.Op == "id" || e.Op == "sel"):
			p.next()
			var args []*Expr
			for !p.isOp(")") {
				args = append(args, p.quant())
				if p.isOp(",") {
					p.next()
				}
			}
			p.expect(")")
			if e.Op == "id" {
				if e.Name == "old" && len(args) == 1 {
					e = &Expr{Op: "old", Args: args}
				} else {
					e = &Expr{Op: "call", Name: e.Name, Args: args}
				}
			} else {
				// pkg.f(args) or x.m(args): method-style spec call => name "recv.m"
				e = &Expr{Op: "call", Name: e.String(), Args: args}
			}
		default:
			return e
		}
	}
}

func (p *parser) primary() *Expr {
	t := p.next()
	switch t.kind {
	case "int":
		return &Expr{Op: "int", Name: t.text}
	case "str":
		return &Expr{Op: "str", Name: t.text}
	case "id":
		switch t.text {
		case "true", "false":
			return &Expr{Op: "bool", Name: t.text}
		case "nil":
			return &Expr{Op: "nil", Name: "nil"}
		}
		return &Expr{Op: "id", Name: t.text}
	case "op":
		if t.text == "(" {
			e := p.quant()
			p.expect(")")
			return e
		}
	}
	panic(fmt.Sprintf("unexpected token %q", t.text))
}

// ---- clauses -------------------------------------------------------------

type Clause struct {
	Kind  string // requires, ensures, invariant, modifies, ...
	Label string
	Expr  *Expr
	Text  string
	Loop  int // for loop clauses
	At    string // for call-site assertions: "pkg.Type.Method#k"
	File  string
	Line  int
}

type ModItem struct {
	Kind string // "field", "map", "mem", "cell", "all", "every"
	Expr *Expr  // object expression (for field: the object; Name holds the field)
	Name string
	Type string // for "every": the struct type
}

type FuncContract struct {
	Key       string // "Type.Method" or "Func", optionally prefixed by a package path for externs
	PkgPath   string
	Names     []string // optional explicit parameter names (receiver first)
	Requires  []*Clause
	RequiresLocked []*Clause
	Ensures   []*Clause
	UnknownMods []ModItem // state that calls to unknown code may change (havocked after each such call)
	Lemmas    []*Clause // facts about the result that are assumed at call sites and not checked in the body (listed as assumptions)
	Invs      map[int][]*Clause
	Modifies  []ModItem
	ModText   []string
	NoPanic   bool
	Trusted   bool // contract is assumed (not verified): externs, interface methods
	Pure      bool
	Inline    bool
	Held      []string // mutexes held on entry: expressions like "s.mu"
	Acquires  []string // mutexes held on return
	OnLock    []ModItem // state guarded by a mutex without a lockinv: havocked when the function first locks it
	OnLockText []string
	VisitsAll []int     // loops that must not be left early (loop K visits_all)
	RulesOnly bool      // trusted postconditions, body checked for call-site rules only
	OpaqueMul bool      // products of non-literal terms are uninterpreted (mulTerm)
	Forbids   []string  // callees the function must never call
	HasFSEffects bool   // fs_effects clause present
	FSEffects []string  // the mutating os / io/ioutil calls the function may make directly
	HasFSAccess bool    // fs_access clause present
	FSAccess  []string  // the path-taking os / io/ioutil / filepath calls (reads included) it may make directly
	Callbacks []string  // func-typed parameters declared `callback p`
	CbInvs    []*Clause // closure passed as a callback: invariants kept by every call
	Asserts   []*Clause // "assert at call Callee#k: expr"
	GhostSets []*Clause // ghost updates
	GhostUpdates []*GhostUpdate
	File      string
	Line      int
	Extern    bool
}

type SpecFunc struct {
	Name    string
	Params  []BoundVar
	Result  string
	Body    *Expr
	PkgPath string
}

type GhostField struct {
	Type, Name, FieldType string
	PkgPath               string
}

type LockInv struct {
	PkgPath string
	Type    string // struct type name
	Mutex   string // field name
	Self    string // name of the receiver variable in Inv
	Guards  []string
	RefOnly map[string]bool // "ref f": the field is shared mutable state, what it refers to is never modified once published
	Inv     []*Clause
}

type Axiom struct {
	Name    string
	Expr    *Expr
	PkgPath string
}

type ContractSet struct {
	Funcs     map[string]*FuncContract // key: pkgpath + "." + Key
	SpecFuncs map[string]*SpecFunc // by "pkgpath\x00name"
	SpecFuncByName map[string][]*SpecFunc
	Ghosts    []*GhostField
	LockInvs  []*LockInv
	Axioms    []*Axiom
	Sums      []*GhostSum
	ClosedTypes []*ClosedType
}

// ClosedType: see the closed_type clause.
type ClosedType struct {
	PkgPath string
	Type    string
	Fields  []string
	Text    string
}

func newContractSet() *ContractSet {
	return &ContractSet{Funcs: map[string]*FuncContract{}, SpecFuncs: map[string]*SpecFunc{}, SpecFuncByName: map[string][]*SpecFunc{}}
}

var clauseKeywords = map[string]bool{
	"func": true, "on_lock": true, "extern": true, "requires": true, "requires_locked": true, "ensures": true, "modifies": true, "nopanic": true,
	"loop": true, "specfunc": true, "ghost": true, "ghostsum": true, "ghost_set": true, "lockinv": true, "axiom": true, "trusted": true,
	"pure": true, "inline": true, "held": true, "acquires": true, "assert": true, "package": true, "invariant": true, "lemma": true, "lemma_at": true, "unknown_calls_modify": true,
	"assume_after": true, "callback": true, "closed_type": true, "fs_effects": true, "fs_access": true, "forbids": true, "opaque_mul": true, "rules_only": true,
}

// splitLabel splits "label: expr" (label is a bare identifier followed by ':' but not '::').
func splitLabel(s string) (string, string) {
	s = strings.TrimSpace(s)
	i := 0
	for i < len(s) && (unicode.IsLetter(rune(s[i])) || unicode.IsDigit(rune(s[i])) || s[i] == '_') {
		i++
	}
	if i > 0 && i < len(s) && s[i] == ':' && !(i+1 < len(s) && s[i+1] == ':') {
		return s[:i], strings.TrimSpace(s[i+1:])
	}
	return "", s
}

// parseContractText parses the //@ lines of one file. pkgPath is the package the file belongs
// to ("" for extern files, which name packages explicitly with a "package" clause).
func (cs *ContractSet) parseContractText(file, pkgPath string, lines []string, lineNos []int) error {
	// Join continuation lines.
	type item struct {
		text string
		line int
	}
	var items []item
	for i, l := range lines {
		t := strings.TrimSpace(l)
		if t == "" {
			continue
		}
		first := t
		if j := strings.IndexAny(t, " \t("); j >= 0 {
			first = t[:j]
		}
		first = strings.TrimSuffix(first, ":")
		if clauseKeywords[first] || len(items) == 0 {
			items = append(items, item{t, lineNos[i]})
		} else {
			items[len(items)-1].text += " " + t
		}
	}
	var cur *FuncContract
	var curLock *LockInv
	counters := map[string]int{}
	mk := func(kind, rest string, line int) (*Clause, error) {
		label, body := splitLabel(rest)
		e, err := parseExpr(body)
		if err != nil {
			return nil, fmt.Errorf("%s:%d: %v", file, line, err)
		}
		if label == "" {
			counters[kind]++
			label = fmt.Sprintf("%d", counters[kind]-1)
		}
		return &Clause{Kind: kind, Label: label, Expr: e, Text: body, File: file, Line: line}, nil
	}
	for _, it := range items {
		t := it.text
		// strip trailing comment
		if j := strings.Index(t, " // "); j >= 0 {
			t = strings.TrimSpace(t[:j])
		}
		kw := t
		rest := ""
		if j := strings.IndexAny(t, " \t"); j >= 0 {
			kw, rest = t[:j], strings.TrimSpace(t[j+1:])
		}
		switch kw {
		case "package":
			pkgPath = rest
			cur, curLock = nil, nil
		case "func", "extern":
			curLock = nil
			counters = map[string]int{}
			key := rest
			var names []string
			if j := strings.Index(rest, "("); j >= 0 {
				key = strings.TrimSpace(rest[:j])
				k := strings.Index(rest, ")")
				if k < j {
					return fmt.Errorf("%s:%d: bad func header", file, it.line)
				}
				for _, n := range strings.Split(rest[j+1:k], ",") {
					if n = strings.TrimSpace(n); n != "" {
						names = append(names, n)
					}
				}
			}
			cur = &FuncContract{Key: key, PkgPath: pkgPath, Names: names, Invs: map[int][]*Clause{}, File: file, Line: it.line}
			if kw == "extern" {
				cur.Extern = true
				cur.Trusted = true
			}
			full := pkgPath + "." + key
			if _, dup := cs.Funcs[full]; dup {
				return fmt.Errorf("%s:%d: duplicate contract for %s", file, it.line, full)
			}
			cs.Funcs[full] = cur
		case "lemma":
			// lemma label: expr -- a mathematical consequence of the proved postconditions that the
			// solvers cannot derive (e.g. finite-set cardinality); assumed at call sites, never checked
			if cur == nil {
				return fmt.Errorf("%s:%d: lemma outside func", file, it.line)
			}
			c, err := mk(kw, rest, it.line)
			if err != nil {
				return err
			}
			cur.Lemmas = append(cur.Lemmas, c)
		case "requires", "ensures", "requires_locked":
			if cur == nil {
				return fmt.Errorf("%s:%d: %s outside func", file, it.line, kw)
			}
			c, err := mk(kw, rest, it.line)
			if err != nil {
				return err
			}
			switch kw {
			case "requires":
				cur.Requires = append(cur.Requires, c)
			case "requires_locked":
				// a precondition on lock-guarded state that the environment keeps stable between the
				// call and the acquisition of the lock (a rely; listed as an assumption in the evidence)
				cur.RequiresLocked = append(cur.RequiresLocked, c)
			default:
				cur.Ensures = append(cur.Ensures, c)
			}
		case "callback":
			// callback p: the func-typed parameter p is called zero or more times and is the only way
			// this function affects state beyond its own modifies clause (see callbacks.go)
			if cur == nil {
				return fmt.Errorf("%s:%d: callback outside func", file, it.line)
			}
			cur.Callbacks = append(cur.Callbacks, strings.TrimSpace(rest))
		case "invariant":
			if curLock == nil && cur != nil {
				// invariant of a closure passed as a callback: holds before and after each of its calls
				c, err := mk("cbinv", rest, it.line)
				if err != nil {
					return err
				}
				cur.CbInvs = append(cur.CbInvs, c)
				continue
			}
			if curLock == nil {
				return fmt.Errorf("%s:%d: invariant outside lockinv", file, it.line)
			}
			c, err := mk("lockinv", rest, it.line)
			if err != nil {
				return err
			}
			curLock.Inv = append(curLock.Inv, c)
		case "loop":
			if cur == nil {
				return fmt.Errorf("%s:%d: loop outside func", file, it.line)
			}
			// loop K invariant [label:] expr
			fs := strings.Fields(rest)
			if len(fs) == 2 && fs[1] == "visits_all" {
				// loop K visits_all: the loop is left only when its range (or condition) is exhausted -
				// a break or return inside it is a failed obligation ("every element is considered")
				k, err := strconv.Atoi(fs[0])
				if err != nil {
					return fmt.Errorf("%s:%d: bad loop ordinal", file, it.line)
				}
				cur.VisitsAll = append(cur.VisitsAll, k)
				continue
			}
			if len(fs) < 3 {
				return fmt.Errorf("%s:%d: bad loop clause", file, it.line)
			}
			k, err := strconv.Atoi(strings.TrimSuffix(fs[0], ":"))
			if err != nil {
				return fmt.Errorf("%s:%d: bad loop ordinal", file, it.line)
			}
			sub := fs[1]
			body := strings.TrimSpace(strings.SplitN(rest, sub, 2)[1])
			switch sub {
			case "invariant":
				c, err := mk(fmt.Sprintf("loop%d", k), body, it.line)
				if err != nil {
					return err
				}
				c.Loop = k
				cur.Invs[k] = append(cur.Invs[k], c)
			default:
				return fmt.Errorf("%s:%d: unknown loop clause %q", file, it.line, sub)
			}
		case "modifies":
			if cur == nil {
				return fmt.Errorf("%s:%d: modifies outside func", file, it.line)
			}
			for _, part := range splitTop(rest, ',') {
				part = strings.TrimSpace(part)
				if part == "" {
					continue
				}
				mi, err := parseModItem(part)
				if err != nil {
					return fmt.Errorf("%s:%d: %v", file, it.line, err)
				}
				cur.Modifies = append(cur.Modifies, mi)
				cur.ModText = append(cur.ModText, part)
			}
		case "opaque_mul":
			// opaque_mul: products of two non-literal terms are an uninterpreted function in this
			// function's obligations (see mulTerm)
			if cur == nil {
				return fmt.Errorf("%s:%d: opaque_mul outside func", file, it.line)
			}
			cur.OpaqueMul = true
		case "forbids":
			// forbids T.m, pkg.f: calls the function must never make (directly); each one found is a
			// failed obligation. Used where a protocol step may only happen elsewhere (the event loop
			// is stopped only by the shutdown event, which first answers every waiter).
			if cur == nil {
				return fmt.Errorf("%s:%d: forbids outside func", file, it.line)
			}
			for _, part := range splitTop(rest, ',') {
				if part = strings.TrimSpace(part); part != "" {
					cur.Forbids = append(cur.Forbids, part)
				}
			}
		case "fs_effects":
			// fs_effects os.RemoveAll, os.Rename: the frame of the function on the file system - the
			// only mutating calls of package os (and io/ioutil) it may make directly; any other one
			// is a failed obligation. An empty list ("fs_effects none") allows none.
			if cur == nil {
				return fmt.Errorf("%s:%d: fs_effects outside func", file, it.line)
			}
			cur.HasFSEffects = true
			for _, part := range splitTop(rest, ',') {
				part = strings.TrimSpace(part)
				if part != "" && part != "none" {
					cur.FSEffects = append(cur.FSEffects, part)
				}
			}
		case "fs_access":
			// fs_access os.Stat, ...: like fs_effects, but for every call of package os, io/ioutil
			// or path/filepath that takes a path and goes to the file system - reads included.
			// "fs_access none": the function reaches the file system only through its callees.
			if cur == nil {
				return fmt.Errorf("%s:%d: fs_access outside func", file, it.line)
			}
			cur.HasFSAccess = true
			for _, part := range splitTop(rest, ',') {
				part = strings.TrimSpace(part)
				if part != "" && part != "none" {
					cur.FSAccess = append(cur.FSAccess, part)
				}
			}
		case "unknown_calls_modify":
			// unknown_calls_modify x.f, map y: state that calls to code without a contract (function
			// values, closures, uncontracted callees) may change; havocked after each such call
			if cur == nil {
				return fmt.Errorf("%s:%d: unknown_calls_modify outside func", file, it.line)
			}
			for _, part := range splitTop(rest, ',') {
				part = strings.TrimSpace(part)
				if part == "" {
					continue
				}
				mi, err := parseModItem(part)
				if err != nil {
					return fmt.Errorf("%s:%d: %v", file, it.line, err)
				}
				cur.UnknownMods = append(cur.UnknownMods, mi)
			}
		case "on_lock":
			// on_lock havoc cell f.data, mem deref(f.data): the state other threads may change until the
			// function acquires its (invariant-less) mutex; accessed only while that mutex is held
			if cur == nil {
				return fmt.Errorf("%s:%d: on_lock outside func", file, it.line)
			}
			body := strings.TrimSpace(strings.TrimPrefix(strings.TrimSpace(rest), "havoc"))
			for _, part := range splitTop(body, ',') {
				part = strings.TrimSpace(part)
				if part == "" {
					continue
				}
				mi, err := parseModItem(part)
				if err != nil {
					return fmt.Errorf("%s:%d: %v", file, it.line, err)
				}
				cur.OnLock = append(cur.OnLock, mi)
				cur.OnLockText = append(cur.OnLockText, part)
			}
		case "ghost_set":
			// ghost_set x.f = expr [if cond]   (applied on return, before deferred calls run)
			if cur == nil {
				return fmt.Errorf("%s:%d: ghost_set outside func", file, it.line)
			}
			gs, err := parseGhostSet(rest)
			if err != nil {
				return fmt.Errorf("%s:%d: %v", file, it.line, err)
			}
			cur.GhostUpdates = append(cur.GhostUpdates, gs)
		case "nopanic":
			cur.NoPanic = true
		case "trusted":
			cur.Trusted = true
		case "rules_only":
			// rules_only: the postconditions are assumed (as with `trusted`: floating point, hashes...),
			// but the body is still executed for its call-site rules, forbidden calls, frames of
			// external effects and callee preconditions
			cur.Trusted = true
			cur.RulesOnly = true
		case "pure":
			cur.Pure = true
		case "inline":
			cur.Inline = true
		case "held":
			cur.Held = append(cur.Held, strings.TrimSpace(rest))
		case "acquires":
			// the function returns holding this mutex (e.g. "result.mu")
			cur.Acquires = append(cur.Acquires, strings.TrimSpace(rest))
		case "assert", "lemma_at", "assume_after":
			// assume_after label: at Callee#k :: expr  (an assumed fact about what an external callee
			//   without a usable contract did - e.g. a codec -, in the state right after that call
			//   returned; `result` / `resultN` name the call's results; never checked, listed in the evidence)
			// assert label: at Callee#k :: expr      (call-site rule: holds whenever that call is reached)
			// lemma_at label: at Callee#k :: expr    (a mathematical consequence of the facts in force at
			//   that point which the solvers cannot derive, e.g. pigeonhole; assumed there, never checked,
			//   listed in the evidence)
			label, body := splitLabel(rest)
			at := ""
			if strings.HasPrefix(body, "at ") {
				if i := strings.Index(body, "::"); i >= 0 {
					at = strings.TrimSpace(body[3:i])
					body = strings.TrimSpace(body[i+2:])
				}
			}
			if at == "" {
				return fmt.Errorf("%s:%d: assert needs 'at Callee#k :: expr'", file, it.line)
			}
			c, err := mk(kw, label+": "+body, it.line)
			if err != nil {
				return err
			}
			c.At = at
			cur.Asserts = append(cur.Asserts, c)
		case "specfunc":
			sf, err := parseSpecFunc(rest)
			if err != nil {
				return fmt.Errorf("%s:%d: %v", file, it.line, err)
			}
			sf.PkgPath = pkgPath
			for _, o := range cs.SpecFuncByName[sf.Name] {
				if o.PkgPath == pkgPath {
					return fmt.Errorf("%s:%d: spec function %s defined twice in %s", file, it.line, sf.Name, pkgPath)
				}
			}
			cs.SpecFuncs[pkgPath+"\x00"+sf.Name] = sf
			cs.SpecFuncByName[sf.Name] = append(cs.SpecFuncByName[sf.Name], sf)
		case "closed_type":
			// closed_type T fields f, g: contracts rely on a coupling between these fields of T that
			// every method touching them must keep; a method of T (or *T) that touches one of them
			// and has no contract is reported as a failed obligation (checked whenever a method of T
			// under contract is verified)
			fs := strings.Fields(strings.ReplaceAll(rest, ",", " "))
			if len(fs) < 3 || fs[1] != "fields" {
				return fmt.Errorf("%s:%d: closed_type T fields f, g", file, it.line)
			}
			cs.ClosedTypes = append(cs.ClosedTypes, &ClosedType{PkgPath: pkgPath, Type: fs[0], Fields: fs[2:], Text: rest})
		case "ghost":
			// ghost field T.name type
			fs := strings.Fields(rest)
			if len(fs) != 3 || fs[0] != "field" {
				return fmt.Errorf("%s:%d: bad ghost decl", file, it.line)
			}
			tn := strings.SplitN(fs[1], ".", 2)
			if len(tn) != 2 {
				return fmt.Errorf("%s:%d: bad ghost field name", file, it.line)
			}
			cs.Ghosts = append(cs.Ghosts, &GhostField{Type: tn[0], Name: tn[1], FieldType: fs[2], PkgPath: pkgPath})
		case "lockinv":
			// lockinv T.mu self x guards f1, f2
			cur = nil
			fs := strings.Fields(rest)
			if len(fs) < 3 {
				return fmt.Errorf("%s:%d: bad lockinv", file, it.line)
			}
			tn := strings.SplitN(fs[0], ".", 2)
			li := &LockInv{PkgPath: pkgPath, Type: tn[0], Mutex: tn[1]}
			i := 1
			if fs[i] == "self" {
				li.Self = fs[i+1]
				i += 2
			}
			if i < len(fs) && fs[i] == "guards" {
				g := strings.Join(fs[i+1:], " ")
				for _, x := range strings.Split(g, ",") {
					if x = strings.TrimSpace(x); x != "" {
						if strings.HasPrefix(x, "ref ") {
							x = strings.TrimSpace(strings.TrimPrefix(x, "ref "))
							if li.RefOnly == nil {
								li.RefOnly = map[string]bool{}
							}
							li.RefOnly[x] = true
						}
						li.Guards = append(li.Guards, x)
					}
				}
			}
			cs.LockInvs = append(cs.LockInvs, li)
			curLock = li
			counters = map[string]int{}
		case "ghostsum":
			// ghostsum NAME over MAPTYPE of EXPR   (EXPR over the map value v and key k)
			fs := strings.SplitN(rest, " over ", 2)
			if len(fs) != 2 {
				return fmt.Errorf("%s:%d: bad ghostsum", file, it.line)
			}
			gs := strings.SplitN(fs[1], " of ", 2)
			if len(gs) != 2 {
				return fmt.Errorf("%s:%d: bad ghostsum", file, it.line)
			}
			e, err := parseExpr(strings.TrimSpace(gs[1]))
			if err != nil {
				return fmt.Errorf("%s:%d: %v", file, it.line, err)
			}
			cs.Sums = append(cs.Sums, &GhostSum{Name: strings.TrimSpace(fs[0]), MapType: strings.TrimSpace(gs[0]), Expr: e, PkgPath: pkgPath})
		case "axiom":
			label, body := splitLabel(rest)
			e, err := parseExpr(body)
			if err != nil {
				return fmt.Errorf("%s:%d: %v", file, it.line, err)
			}
			cs.Axioms = append(cs.Axioms, &Axiom{Name: label, Expr: e, PkgPath: pkgPath})
		default:
			return fmt.Errorf("%s:%d: unknown clause %q", file, it.line, kw)
		}
	}
	return nil
}

func splitTop(s string, sep byte) []string {
	var out []string
	depth := 0
	last := 0
	for i := 0; i < len(s); i++ {
		switch s[i] {
		case '(', '[':
			depth++
		case ')', ']':
			depth--
		default:
			if s[i] == sep && depth == 0 {
				out = append(out, s[last:i])
				last = i + 1
			}
		}
	}
	out = append(out, s[last:])
	return out
}

func parseModItem(s string) (ModItem, error) {
	fs := strings.Fields(s)
	if strings.HasPrefix(s, "sent(") && strings.HasSuffix(s, ")") {
		// "sent(ch)": the ghost count of messages sent on channel ch
		e, err := parseExpr(strings.TrimSpace(s[len("sent(") : len(s)-1]))
		return ModItem{Kind: "sent", Expr: e}, err
	}
	if len(fs) >= 2 && (fs[0] == "map" || fs[0] == "mem" || fs[0] == "cell") {
		e, err := parseExpr(strings.TrimSpace(s[len(fs[0]):]))
		return ModItem{Kind: fs[0], Expr: e}, err
	}
	if s == "*" {
		return ModItem{Kind: "all"}, nil
	}
	if len(fs) == 2 && fs[0] == "allmem" {
		// "allmem T": the backing arrays of every slice with elements of type T
		return ModItem{Kind: "every", Name: "", Type: fs[1]}, nil
	}
	if len(fs) >= 2 && fs[0] == "allmaps" {
		// "allmaps map[K]V": the contents (and, coarsely, the length of every map) of all maps of that type
		return ModItem{Kind: "every", Name: "#maps", Type: strings.TrimSpace(s[len("allmaps"):])}, nil
	}
	if len(fs) == 2 && fs[0] == "every" {
		// "every T.f": field f of any object of struct type T (T may be package-qualified)
		i := strings.LastIndex(fs[1], ".")
		if i <= 0 {
			return ModItem{}, fmt.Errorf("modifies every T.f: bad item %q", s)
		}
		return ModItem{Kind: "every", Name: fs[1][i+1:], Type: fs[1][:i]}, nil
	}
	e, err := parseExpr(s)
	if err != nil {
		return ModItem{}, err
	}
	if e.Op != "sel" {
		return ModItem{}, fmt.Errorf("modifies item %q must be x.f, map x, mem x, cell x or *", s)
	}
	return ModItem{Kind: "field", Expr: e.Args[0], Name: e.Name}, nil
}

func parseSpecFunc(s string) (*SpecFunc, error) {
	// name(a T, b T) R [= expr]
	i := strings.Index(s, "(")
	if i < 0 {
		return nil, fmt.Errorf("bad specfunc %q", s)
	}
	name := strings.TrimSpace(s[:i])
	depth := 0
	j := i
	for ; j < len(s); j++ {
		if s[j] == '(' {
			depth++
		} else if s[j] == ')' {
			depth--
			if depth == 0 {
				break
			}
		}
	}
	if j >= len(s) {
		return nil, fmt.Errorf("bad specfunc %q", s)
	}
	sf := &SpecFunc{Name: name}
	for _, p := range splitTop(s[i+1:j], ',') {
		p = strings.TrimSpace(p)
		if p == "" {
			continue
		}
		fs := strings.SplitN(p, " ", 2)
		if len(fs) != 2 {
			return nil, fmt.Errorf("bad specfunc param %q", p)
		}
		sf.Params = append(sf.Params, BoundVar{fs[0], strings.TrimSpace(fs[1])})
	}
	rest := strings.TrimSpace(s[j+1:])
	if k := strings.Index(rest, "="); k >= 0 && !strings.HasPrefix(rest[k:], "==") {
		sf.Result = strings.TrimSpace(rest[:k])
		e, err := parseExpr(strings.TrimSpace(rest[k+1:]))
		if err != nil {
			return nil, err
		}
		sf.Body = e
	} else {
		sf.Result = rest
	}
	if sf.Result == "" {
		return nil, fmt.Errorf("specfunc %s needs a result type", name)
	}
	return sf, nil
}

// lookupSpecFunc resolves a spec function name: the definition in the current package wins;
// otherwise the name must be defined in exactly one other package (contracts of dependencies and
// extern specs share one flat namespace, so a clash is an error rather than a silent pick).
func (cs *ContractSet) lookupSpecFunc(name, pkgPath string) (*SpecFunc, error) {
	if sf := cs.SpecFuncs[pkgPath+"\x00"+name]; sf != nil {
		return sf, nil
	}
	l := cs.SpecFuncByName[name]
	switch len(l) {
	case 0:
		return nil, nil
	case 1:
		return l[0], nil
	}
	return nil, fmt.Errorf("spec function %s is ambiguous: defined in %s and %s", name, l[0].PkgPath, l[1].PkgPath)
}
