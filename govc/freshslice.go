package main

import (
	"golang.org/x/tools/go/ssa"
)

// loopFreshSlice reports whether every backing array the slice value v can have was allocated
// inside the loop (or v is nil): v is built only from nil, allocations located in the loop, and
// appends / reslices / phis of such values. A slice allocated before the loop does not qualify.
func (fx *loopFx) loopFreshSlice(v ssa.Value, seen map[ssa.Value]bool) bool {
	if seen[v] {
		return true
	}
	seen[v] = true
	inLoop := func(in ssa.Instruction) bool {
		return in.Parent() == fx.frame.fn && in.Block() != nil && fx.l.Blocks[in.Block()]
	}
	switch x := v.(type) {
	case *ssa.Const:
		return x.Value == nil // nil slice
	case *ssa.MakeSlice:
		return inLoop(x)
	case *ssa.Slice:
		return fx.loopFreshSlice(x.X, seen)
	case *ssa.Phi:
		for _, e := range x.Edges {
			if !fx.loopFreshSlice(e, seen) {
				return false
			}
		}
		return true
	case *ssa.Call:
		if b, ok := x.Call.Value.(*ssa.Builtin); ok && b.Name() == "append" {
			return fx.loopFreshSlice(x.Call.Args[0], seen)
		}
	}
	return false
}
