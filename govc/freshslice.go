package main

import (
	"golang.org/x/tools/go/ssa"
)

// loopFreshSlice reports whether every backing array the slice value v can have was allocated
// inside the loop (or v is nil): v is built only from nil, allocations located in the loop, and
// appends / reslices / phis of such values. A slice allocated before the loop does not qualify.
func (fx *loopFx) loopFreshSlice(v ssa.Value, seen map[ssa.Value]bool) bool {
	bases, ok := fx.sliceBases(v, seen)
	return ok && len(bases) == 0
}

// sliceBases computes the backing arrays, existing when the loop is entered, that the slice value
// v can refer to: the bases of slices made before the loop in this function. Arrays allocated
// inside the loop (make, append growth) are not listed - they are invisible at the loop head.
// ok=false if v may refer to an array this analysis cannot name (parameters, loads, calls).
func (fx *loopFx) sliceBases(v ssa.Value, seen map[ssa.Value]bool) ([]string, bool) {
	if seen[v] {
		return nil, true
	}
	seen[v] = true
	inLoop := func(in ssa.Instruction) bool {
		return in.Parent() == fx.frame.fn && in.Block() != nil && fx.l.Blocks[in.Block()]
	}
	switch x := v.(type) {
	case *ssa.Const:
		return nil, x.Value == nil // nil slice
	case *ssa.MakeSlice:
		if inLoop(x) {
			return nil, true
		}
		if x.Parent() == fx.frame.fn {
			if val, ok := fx.st.env[x]; ok && val.K == KSlice {
				return []string{val.Base()}, true
			}
		}
		return nil, false
	case *ssa.Slice:
		return fx.sliceBases(x.X, seen)
	case *ssa.Phi:
		var out []string
		for _, e := range x.Edges {
			b, ok := fx.sliceBases(e, seen)
			if !ok {
				return nil, false
			}
			out = append(out, b...)
		}
		return out, true
	case *ssa.Call:
		if b, ok := x.Call.Value.(*ssa.Builtin); ok && b.Name() == "append" {
			return fx.sliceBases(x.Call.Args[0], seen)
		}
	}
	return nil, false
}
