package main

// sort.Slice(x, less): assumed to permute the elements of slice x in place. The permutation is
// a fresh function perm with, for every index i of the slice, 0 <= perm(i) < len and
// new[i] == old[perm(i)], perm injective on the range, with an inverse inv (perm(inv(j)) == j).
// Nothing is assumed (or proved) about the resulting order: the less closure is not interpreted.
//
// sort.Sort(data) / sort.Stable(data), possibly through sort.Reverse: when the dynamic value of data is
// a pointer to (or a value of) a struct with exactly one slice-typed field whose Len and Swap
// methods are under contract (Len returns the length of that field, Swap exchanges two of its
// elements and nothing else), the call is modelled as the same in-place permutation of that field.

import (
	"fmt"
	"go/types"

	"golang.org/x/tools/go/ssa"
)

func (c *FnCtx) sortSlice(st *State, args []Val) bool {
	if len(args) < 1 {
		return false
	}
	v, ok := c.boxed[args[0].S]
	if !ok || v.K != KSlice {
		return false
	}
	c.permuteSlice(st, v)
	if len(args) >= 2 && c.sortSliceOrder(st, v, args[1]) {
		return true
	}
	c.note("sort.Slice: assumed to permute the slice in place; the resulting order (less closure) is not modelled")
	return true
}

// sortSliceOrder: when the less argument of sort.Slice is a closure created in this function and
// under contract with a clause labelled `order` of the form `result <==> E(i, j)` (E over the
// closure's parameters and captured variables), the sorted slice additionally satisfies, for all
// positions i < j, !E(j, i): no later element is less than an earlier one. The closure is verified
// against that contract like any other function.
func (c *FnCtx) sortSliceOrder(st *State, sv Val, less Val) bool {
	mc, ok := c.closures[less.S]
	if !ok {
		return false
	}
	fn, ok := mc.Fn.(*ssa.Function)
	if !ok || len(fn.Params) != 2 {
		return false
	}
	key := contractKeyForFunc(fn)
	lfc := c.eng.cs.Funcs[key]
	if lfc == nil {
		return false
	}
	done := false
	for _, e := range lfc.Ensures {
		if e.Label != "order" || e.Expr == nil || e.Expr.Op != "bin" || e.Expr.Name != "<==>" {
			continue
		}
		c.usedContracts[key] = lfc
		iName, jName := fn.Params[0].Name(), fn.Params[1].Name()
		if len(lfc.Names) == 2 {
			iName, jName = lfc.Names[0], lfc.Names[1]
		}
		c.nfresh++
		qi := sym(fmt.Sprintf("q.si!%d", c.nfresh))
		qj := sym(fmt.Sprintf("q.sj!%d", c.nfresh))
		env := &SpecEnv{c: c, st: st, heap: st.heap, vars: map[string]Val{}, pkg: fn.Pkg.Pkg, foreign: true, fvs: c.closureBindings(st, mc)}
		env.vars[iName] = mathInt(qj)
		env.vars[jName] = mathInt(qi)
		body, err := c.evalBool(env, e.Expr.Args[1])
		if err != nil {
			c.errs = append(c.errs, "sort.Slice: cannot evaluate the order clause of "+key+": "+err.Error())
			break
		}
		st.assume(fmt.Sprintf("(forall ((%s Int) (%s Int)) (=> (and (<= 0 %s) (< %s %s) (< %s %s)) (not %s)))", qi, qj, qi, qi, qj, qj, sv.Len(), body))
		c.note("sort.Slice: permutes the slice in place, ordered by the less closure " + shortCallee(key) + " (contract clause `order`): no later element is less than an earlier one")
		done = true
	}
	return done
}

func (c *FnCtx) permuteSlice(st *State, v Val) {
	et := v.T.Underlying().(*types.Slice).Elem()
	c.nfresh++
	perm := sym(fmt.Sprintf("sortperm!%d", c.nfresh))
	inv := sym(fmt.Sprintf("sortinv!%d", c.nfresh))
	c.declareFun(perm, []string{"Int"}, "Int")
	c.declareFun(inv, []string{"Int"}, "Int")
	n, off, base := v.Len(), v.Off(), v.Base()
	st.assume(fmt.Sprintf("(forall ((i Int)) (! (=> (and (<= 0 i) (< i %s)) (and (<= 0 (%s i)) (< (%s i) %s))) :pattern ((%s i))))", n, perm, perm, n, perm))
	st.assume(fmt.Sprintf("(forall ((i Int) (j Int)) (! (=> (and (<= 0 i) (< i %s) (<= 0 j) (< j %s) (not (= i j))) (not (= (%s i) (%s j)))) :pattern ((%s i) (%s j))))", n, n, perm, perm, perm, perm))
	st.assume(fmt.Sprintf("(forall ((j Int)) (! (=> (and (<= 0 j) (< j %s)) (and (<= 0 (%s j)) (< (%s j) %s) (= (%s (%s j)) j))) :pattern ((%s j))))", n, inv, inv, n, perm, inv, inv))
	for _, lf := range leavesOf(et) {
		name := arrName("M", elemKey(et), lf.Path, lf.Sort)
		arr := c.heapGet(st.heap, name)
		row := c.fresh("sorted.row", "(Array Int "+lf.Sort+")")
		oldRow := sel(arr, base)
		// inside the slice: permuted; outside: unchanged
		st.assume(fmt.Sprintf("(forall ((j Int)) (! (= (select %s j) (ite (and (<= %s j) (< j (+ %s %s))) (select %s %s) (select %s j))) :pattern ((select %s j))))",
			row, off, off, n, oldRow, slot(off, "("+perm+" (- j "+off+"))"), oldRow, row))
		// redundant instance, triggered by a mention of an element of the unsorted slice: it sits at
		// position inv(k) afterwards
		oldElem := sel(oldRow, slot(off, "k"))
		st.assume(fmt.Sprintf("(forall ((k Int)) (! (=> (and (<= 0 k) (< k %s)) (and (<= 0 (%s k)) (< (%s k) %s) (= (select %s %s) %s))) :pattern (%s)))",
			n, inv, inv, n, row, slot(off, "("+inv+" k)"), oldElem, oldElem))
		c.heapSet(st, name, sto(arr, base, row))
	}
}

// sortInterface models sort.Sort / sort.Stable on a struct with one slice field (see the file comment).
// If the sorted type's Less has a contract clause labelled `order` of the form
// `result <==> E(a, i, j)`, the sorted slice additionally satisfies, for all positions i < j,
// !E(a, j, i) (and !E(a, i, j) when sorted through sort.Reverse): no later element is less than an
// earlier one. That is what sort.Sort guarantees for any Less, whatever its properties.
func (c *FnCtx) sortInterface(st *State, args []Val) bool {
	if len(args) < 1 {
		return false
	}
	term := args[0].S
	reversed := false
	if base, ok := c.revOf[term]; ok {
		term, reversed = base, true
	}
	v, ok := c.boxed[term]
	if !ok {
		return false
	}
	var stt types.Type
	var obj string
	switch v.K {
	case KRef:
		pt, ok := v.T.Underlying().(*types.Pointer)
		if !ok {
			return false
		}
		stt, obj = pt.Elem(), v.S
	default:
		return false
	}
	s, ok := stt.Underlying().(*types.Struct)
	if !ok {
		return false
	}
	field := -1
	for i := 0; i < s.NumFields(); i++ {
		if _, isSlice := s.Field(i).Type().Underlying().(*types.Slice); isSlice {
			if field >= 0 {
				return false
			}
			field = i
		}
	}
	if field < 0 {
		return false
	}
	key := typeName(stt)
	if c.eng.cs.Funcs[key+".Swap"] == nil || c.eng.cs.Funcs[key+".Len"] == nil {
		return false
	}
	c.usedContracts[key+".Swap"] = c.eng.cs.Funcs[key+".Swap"]
	c.usedContracts[key+".Len"] = c.eng.cs.Funcs[key+".Len"]
	a := &Addr{Space: "F", Key: key, Idx: []string{obj}, Path: s.Field(field).Name(), T: s.Field(field).Type()}
	sv := c.load(st, a)
	if sv.K != KSlice {
		return false
	}
	c.permuteSlice(st, sv)
	c.note("sort.Sort: modelled as an in-place permutation of " + shortCallee(key) + "." + s.Field(field).Name() + " (by the Len/Swap contracts of the sorted type)")
	// ordering by the Less contract
	if lfc := c.eng.cs.Funcs[key+".Less"]; lfc != nil {
		for _, e := range lfc.Ensures {
			if e.Label != "order" || e.Expr == nil || e.Expr.Op != "bin" || e.Expr.Name != "<==>" {
				continue
			}
			c.usedContracts[key+".Less"] = lfc
			recvName, iName, jName := "a", "i", "j"
			if len(lfc.Names) == 3 {
				recvName, iName, jName = lfc.Names[0], lfc.Names[1], lfc.Names[2]
			} else if lf := c.eng.findFunction(lfc); lf != nil && len(lf.Params) == 3 {
				recvName, iName, jName = lf.Params[0].Name(), lf.Params[1].Name(), lf.Params[2].Name()
			}
			c.nfresh++
			qi := sym(fmt.Sprintf("q.si!%d", c.nfresh))
			qj := sym(fmt.Sprintf("q.sj!%d", c.nfresh))
			env := &SpecEnv{c: c, st: st, heap: st.heap, vars: map[string]Val{}, pkg: c.eng.pkgOf(lfc.PkgPath), foreign: true}
			// the receiver of Less: the sorted struct (by value if Less has a value receiver)
			recv := scalar(types.NewPointer(stt), obj)
			if lf := c.eng.findFunction(lfc); lf != nil && len(lf.Params) > 0 {
				if _, isPtr := lf.Params[0].Type().Underlying().(*types.Pointer); !isPtr {
					recv = c.load(st, &Addr{Space: "F", Key: key, Idx: []string{obj}, Path: "", T: stt})
				}
			}
			env.vars[recvName] = recv
			// no later element is less than an earlier one: for i < j, !Less(j, i); reversed: !Less(i, j)
			first, second := qj, qi
			if reversed {
				first, second = qi, qj
			}
			env.vars[iName] = mathInt(first)
			env.vars[jName] = mathInt(second)
			body, err := c.evalBool(env, e.Expr.Args[1])
			if err != nil {
				c.errs = append(c.errs, "sort.Sort: cannot evaluate the order clause of "+key+".Less: "+err.Error())
				break
			}
			st.assume(fmt.Sprintf("(forall ((%s Int) (%s Int)) (=> (and (<= 0 %s) (< %s %s) (< %s %s)) (not %s)))", qi, qj, qi, qi, qj, qj, sv.Len(), body))
			c.note("sort.Sort: the sorted slice is ordered by " + shortCallee(key) + ".Less (contract clause `order`): no later element is less than an earlier one")
		}
	}
	return true
}
