package main

// sort.Slice(x, less): assumed to permute the elements of slice x in place. The permutation is
// a fresh function perm with, for every index i of the slice, 0 <= perm(i) < len and
// new[i] == old[perm(i)], perm injective on the range. Nothing is assumed (or proved) about the
// resulting order: the less closure is not interpreted.

import (
	"fmt"
	"go/types"
)

func (c *FnCtx) sortSlice(st *State, args []Val) bool {
	if len(args) < 1 {
		return false
	}
	v, ok := c.boxed[args[0].S]
	if !ok || v.K != KSlice {
		return false
	}
	et := v.T.Underlying().(*types.Slice).Elem()
	c.nfresh++
	perm := sym(fmt.Sprintf("sortperm!%d", c.nfresh))
	c.declareFun(perm, []string{"Int"}, "Int")
	n, off, base := v.Len(), v.Off(), v.Base()
	st.assume(fmt.Sprintf("(forall ((i Int)) (! (=> (and (<= 0 i) (< i %s)) (and (<= 0 (%s i)) (< (%s i) %s))) :pattern ((%s i))))", n, perm, perm, n, perm))
	st.assume(fmt.Sprintf("(forall ((i Int) (j Int)) (! (=> (and (<= 0 i) (< i %s) (<= 0 j) (< j %s) (not (= i j))) (not (= (%s i) (%s j)))) :pattern ((%s i) (%s j))))", n, n, perm, perm, perm, perm))
	for _, lf := range leavesOf(et) {
		name := arrName("M", elemKey(et), lf.Path, lf.Sort)
		arr := c.heapGet(st.heap, name)
		row := c.fresh("sorted.row", "(Array Int "+lf.Sort+")")
		oldRow := sel(arr, base)
		// inside the slice: permuted; outside: unchanged
		st.assume(fmt.Sprintf("(forall ((j Int)) (! (= (select %s j) (ite (and (<= %s j) (< j (+ %s %s))) (select %s %s) (select %s j))) :pattern ((select %s j))))",
			row, off, off, n, oldRow, slot(off, "("+perm+" (- j "+off+"))"), oldRow, row))
		c.heapSet(st, name, sto(arr, base, row))
	}
	c.note("sort.Slice: assumed to permute the slice in place; the resulting order (less closure) is not modelled")
	return true
}
