package main

// sort.Slice(x, less): assumed to permute the elements of slice x in place. The permutation is
// a fresh function perm with, for every index i of the slice, 0 <= perm(i) < len and
// new[i] == old[perm(i)], perm injective on the range, with an inverse inv (perm(inv(j)) == j).
// Nothing is assumed (or proved) about the resulting order: the less closure is not interpreted.
//
// sort.Sort(data) / sort.Stable(data), possibly through sort.Reverse: when the dynamic value of data is
// a pointer to (or a value of) a struct with exactly one slice-typed field whose Len and Swap
// methods are under contract (Len returns the length of that field, Swap exchanges two of its
// elements and nothing else), the call is modelled as the same in-place permutation of that field.

import (
	"fmt"
	"go/types"
)

func (c *FnCtx) sortSlice(st *State, args []Val) bool {
	if len(args) < 1 {
		return false
	}
	v, ok := c.boxed[args[0].S]
	if !ok || v.K != KSlice {
		return false
	}
	c.permuteSlice(st, v)
	c.note("sort.Slice: assumed to permute the slice in place; the resulting order (less closure) is not modelled")
	return true
}

func (c *FnCtx) permuteSlice(st *State, v Val) {
	et := v.T.Underlying().(*types.Slice).Elem()
	c.nfresh++
	perm := sym(fmt.Sprintf("sortperm!%d", c.nfresh))
	inv := sym(fmt.Sprintf("sortinv!%d", c.nfresh))
	c.declareFun(perm, []string{"Int"}, "Int")
	c.declareFun(inv, []string{"Int"}, "Int")
	n, off, base := v.Len(), v.Off(), v.Base()
	st.assume(fmt.Sprintf("(forall ((i Int)) (! (=> (and (<= 0 i) (< i %s)) (and (<= 0 (%s i)) (< (%s i) %s))) :pattern ((%s i))))", n, perm, perm, n, perm))
	st.assume(fmt.Sprintf("(forall ((i Int) (j Int)) (! (=> (and (<= 0 i) (< i %s) (<= 0 j) (< j %s) (not (= i j))) (not (= (%s i) (%s j)))) :pattern ((%s i) (%s j))))", n, n, perm, perm, perm, perm))
	st.assume(fmt.Sprintf("(forall ((j Int)) (! (=> (and (<= 0 j) (< j %s)) (and (<= 0 (%s j)) (< (%s j) %s) (= (%s (%s j)) j))) :pattern ((%s j))))", n, inv, inv, n, perm, inv, inv))
	for _, lf := range leavesOf(et) {
		name := arrName("M", elemKey(et), lf.Path, lf.Sort)
		arr := c.heapGet(st.heap, name)
		row := c.fresh("sorted.row", "(Array Int "+lf.Sort+")")
		oldRow := sel(arr, base)
		// inside the slice: permuted; outside: unchanged
		st.assume(fmt.Sprintf("(forall ((j Int)) (! (= (select %s j) (ite (and (<= %s j) (< j (+ %s %s))) (select %s %s) (select %s j))) :pattern ((select %s j))))",
			row, off, off, n, oldRow, slot(off, "("+perm+" (- j "+off+"))"), oldRow, row))
		// redundant instance, triggered by a mention of an element of the unsorted slice: it sits at
		// position inv(k) afterwards
		oldElem := sel(oldRow, slot(off, "k"))
		st.assume(fmt.Sprintf("(forall ((k Int)) (! (=> (and (<= 0 k) (< k %s)) (and (<= 0 (%s k)) (< (%s k) %s) (= (select %s %s) %s))) :pattern (%s)))",
			n, inv, inv, n, row, slot(off, "("+inv+" k)"), oldElem, oldElem))
		c.heapSet(st, name, sto(arr, base, row))
	}
}

// sortInterface models sort.Sort / sort.Stable on a struct with one slice field (see the file comment).
func (c *FnCtx) sortInterface(st *State, args []Val) bool {
	if len(args) < 1 {
		return false
	}
	v, ok := c.boxed[args[0].S]
	if !ok {
		return false
	}
	var stt types.Type
	var obj string
	switch v.K {
	case KRef:
		pt, ok := v.T.Underlying().(*types.Pointer)
		if !ok {
			return false
		}
		stt, obj = pt.Elem(), v.S
	default:
		return false
	}
	s, ok := stt.Underlying().(*types.Struct)
	if !ok {
		return false
	}
	field := -1
	for i := 0; i < s.NumFields(); i++ {
		if _, isSlice := s.Field(i).Type().Underlying().(*types.Slice); isSlice {
			if field >= 0 {
				return false
			}
			field = i
		}
	}
	if field < 0 {
		return false
	}
	key := typeName(stt)
	if c.eng.cs.Funcs[key+".Swap"] == nil || c.eng.cs.Funcs[key+".Len"] == nil {
		return false
	}
	c.usedContracts[key+".Swap"] = c.eng.cs.Funcs[key+".Swap"]
	c.usedContracts[key+".Len"] = c.eng.cs.Funcs[key+".Len"]
	a := &Addr{Space: "F", Key: key, Idx: []string{obj}, Path: s.Field(field).Name(), T: s.Field(field).Type()}
	sv := c.load(st, a)
	if sv.K != KSlice {
		return false
	}
	c.permuteSlice(st, sv)
	c.note("sort.Sort: modelled as an in-place permutation of " + shortCallee(key) + "." + s.Field(field).Name() + " (by the Len/Swap contracts of the sorted type); the resulting order (Less) is not modelled")
	return true
}
