package main

// SMT query assembly and the solver portfolio (z3-new 5.1.0, z3 4.8.12, cvc5 1.0.3).

import (
	"bytes"
	"context"
	"fmt"
	"os"
	"os/exec"
	"path/filepath"
	"runtime"
	"strings"
	"sync"
	"time"
)

const prelude = `(declare-fun strlen (Int) Int)
(declare-fun str_empty () Int)
(declare-fun rtype (Int) Int)
(declare-fun at (Int Int) Int)
(assert (forall ((o Int) (i Int)) (! (= (at o i) (+ o i)) :pattern ((at o i)))))
(assert (= (strlen str_empty) 0))
`

type SolverCfg struct {
	quickTimeout time.Duration
	scratch      string
	seed         int
	thorough     bool
	parallel     int
}

func (o *Oblig) query(withModel bool) string {
	c := o.Fn
	var sb strings.Builder
	if withModel {
		sb.WriteString("(set-option :produce-models true)\n")
	}
	sb.WriteString("(set-logic ALL)\n")
	sb.WriteString(prelude)
	for _, d := range c.decls {
		sb.WriteString(d)
		sb.WriteByte('\n')
	}
	for _, f := range c.globalFacts {
		sb.WriteString("(assert " + f + ")\n")
	}
	for _, a := range c.axiomFacts {
		sb.WriteString("(assert " + a + ")\n")
	}
	for _, p := range o.PC {
		sb.WriteString("(assert " + p + ")\n")
	}
	if o.Kind != "cover" {
		sb.WriteString("(assert (not " + o.Goal + "))\n")
	}
	sb.WriteString("(check-sat)\n")
	if withModel && len(o.Vars) > 0 {
		var ts []string
		for _, v := range o.Vars {
			if i := strings.Index(v, "="); i >= 0 {
				ts = append(ts, v[i+1:])
			}
		}
		sb.WriteString("(get-value (" + strings.Join(ts, " ") + "))\n")
	}
	return sb.String()
}

type solverRun struct {
	name string
	args []string
}

func solverCmds(file string, timeout time.Duration, seed int) []solverRun {
	secs := int(timeout.Seconds())
	if secs < 1 {
		secs = 1
	}
	return []solverRun{
		{"z3-new", []string{"z3-new", fmt.Sprintf("-T:%d", secs), fmt.Sprintf("smt.random_seed=%d", seed), fmt.Sprintf("sat.random_seed=%d", seed), file}},
		{"z3", []string{"z3", fmt.Sprintf("-T:%d", secs), fmt.Sprintf("smt.random_seed=%d", seed), file}},
		{"cvc5", []string{"cvc5", fmt.Sprintf("--tlimit=%d", secs*1000), fmt.Sprintf("--seed=%d", seed), "--incremental", file}},
	}
}

func runSolver(ctx context.Context, r solverRun) (string, string) {
	cmd := exec.CommandContext(ctx, r.args[0], r.args[1:]...)
	var out bytes.Buffer
	cmd.Stdout = &out
	cmd.Stderr = &out
	_ = cmd.Run()
	s := out.String()
	first := ""
	for _, ln := range strings.Split(s, "\n") {
		ln = strings.TrimSpace(ln)
		if ln == "" || strings.HasPrefix(ln, "WARNING") {
			// z3 warns (and goes on) when a pattern cannot be used as a trigger
			continue
		}
		first = ln
		break
	}
	switch first {
	case "sat", "unsat", "unknown":
		return first, s
	}
	if strings.Contains(s, "timeout") || ctx.Err() != nil {
		return "timeout", s
	}
	return "error", s
}

// discharge decides one obligation with the portfolio.
// procSem bounds the number of solver processes running at once (one per core): the portfolio
// must not slow itself down by oversubscribing the machine.
var procSem = make(chan struct{}, runtime.NumCPU())

// runSolverSlot waits for a free core, then runs the solver with its own time budget (the
// budget starts when the process starts, not while it queues). cancel aborts a queued or
// running solver whose answer is no longer needed.
func runSolverSlot(cancel context.Context, budget time.Duration, r solverRun) (string, string) {
	select {
	case procSem <- struct{}{}:
	case <-cancel.Done():
		return "timeout", ""
	}
	defer func() { <-procSem }()
	ctx, stop := context.WithTimeout(cancel, budget+2*time.Second)
	defer stop()
	return runSolver(ctx, r)
}

// discharge decides one obligation with the portfolio: z3 5.1.0 first with half of the budget;
// only if it does not decide, z3 4.8.12 and cvc5 share the other half.
func discharge(o *Oblig, cfg *SolverCfg, idx int) {
	start := time.Now()
	file := filepath.Join(cfg.scratch, fmt.Sprintf("q%05d.smt2", idx))
	if err := os.WriteFile(file, []byte(o.query(true)), 0o644); err != nil {
		o.Status = "error"
		return
	}
	o.SMTFile = file
	type res struct {
		solver, status, out string
	}
	if o.Kind == "cover" {
		// vacuity probe: only a refutation (unsat) matters; do not spend the portfolio on it
		runs := solverCmds(file, 3*time.Second, cfg.seed)
		st, _ := runSolverSlot(context.Background(), 3*time.Second, runs[0])
		o.Status, o.Solver, o.Millis = st, runs[0].name, time.Since(start).Milliseconds()
		return
	}
	half := cfg.quickTimeout / 2
	if o.Budget > 0 {
		half = o.Budget / 2
	}
	runs := solverCmds(file, half, cfg.seed)
	st, out := runSolverSlot(context.Background(), half, runs[0])
	final := res{runs[0].name, st, out}
	if st != "sat" && st != "unsat" {
		ch := make(chan res, 2)
		c2, cancel2 := context.WithCancel(context.Background())
		for _, r := range runs[1:] {
			r := r
			go func() {
				s, o := runSolverSlot(c2, half, r)
				ch <- res{r.name, s, o}
			}()
		}
		for got := 0; got < 2; got++ {
			r := <-ch
			if r.status == "sat" || r.status == "unsat" {
				final = r
				break
			}
			if final.status != "unknown" {
				final = r
			}
		}
		cancel2()
	}
	if cfg.thorough && (final.status == "sat" || final.status == "unsat") {
		// thorough tier: the other solvers answer the same query (short budget); a definite answer
		// that contradicts the first one means the engine or a solver is broken
		cross := 20 * time.Second
		ch := make(chan res, 2)
		n := 0
		for _, r := range solverCmds(file, cross, cfg.seed) {
			if r.name == final.solver {
				continue
			}
			r := r
			n++
			go func() {
				s, o := runSolverSlot(context.Background(), cross, r)
				ch <- res{r.name, s, o}
			}()
		}
		for i := 0; i < n; i++ {
			r := <-ch
			o.Cross = append(o.Cross, r.solver+":"+r.status)
			if (r.status == "sat" || r.status == "unsat") && r.status != final.status {
				o.Disagree = true
			}
		}
	}
	o.Status = final.status
	o.Solver = final.solver
	o.Millis = time.Since(start).Milliseconds()
	if final.status == "sat" {
		o.Model = final.out
	} else if final.status != "unsat" {
		o.Model = truncate(final.out, 2000)
	}
}

func dischargeAll(obs []*Oblig, cfg *SolverCfg) {
	var wg sync.WaitGroup
	sem := make(chan struct{}, 4*cfg.parallel)
	for i, o := range obs {
		wg.Add(1)
		sem <- struct{}{}
		go func(i int, o *Oblig) {
			defer wg.Done()
			defer func() { <-sem }()
			discharge(o, cfg, i)
		}(i, o)
	}
	wg.Wait()
}
