package main

// `govc check`: decide one property: verify its functions under contract, report violations,
// write the evidence file.

import (
	"encoding/json"
	"flag"
	"fmt"
	"os"
	"os/exec"
	"path/filepath"
	"regexp"
	"sort"
	"strconv"
	"strings"
	"time"
)

type PropCfg struct {
	Packages       []string `json:"packages"`
	Functions      []string `json:"functions"`
	MinObligations int      `json:"min_obligations"`
	NotCovered     []string `json:"not_covered"`
	Assumptions    []string `json:"assumptions"`
	Bounded        []string `json:"bounded"`
	Mutants        []string `json:"mutants"`
}

type Finding struct {
	Kind       string // "finding" or "fixed"
	Property   string
	Obligation string
	Text       string
}

func readFindings(path string) []Finding {
	data, err := os.ReadFile(path)
	if err != nil {
		return nil
	}
	var out []Finding
	for _, l := range strings.Split(string(data), "\n") {
		l = strings.TrimSpace(l)
		if l == "" || strings.HasPrefix(l, "#") {
			continue
		}
		var f Finding
		switch {
		case strings.HasPrefix(l, "finding:"):
			f.Kind = "finding"
			l = strings.TrimSpace(l[len("finding:"):])
		case strings.HasPrefix(l, "fixed:"):
			f.Kind = "fixed"
			l = strings.TrimSpace(l[len("fixed:"):])
		default:
			continue
		}
		var rest []string
		for _, w := range strings.Fields(l) {
			switch {
			case strings.HasPrefix(w, "property=") && f.Property == "":
				f.Property = w[len("property="):]
			case strings.HasPrefix(w, "obligation=") && f.Obligation == "":
				f.Obligation = w[len("obligation="):]
			default:
				rest = append(rest, w)
			}
		}
		f.Text = strings.Join(rest, " ")
		out = append(out, f)
	}
	return out
}

type obGroup struct {
	Name      string
	Kind      string
	Text      string
	Instances []*Oblig
}

func (g *obGroup) ok() bool {
	for _, o := range g.Instances {
		if o.Status != "unsat" {
			return false
		}
	}
	return true
}

func cmdCheck(args []string) {
	fs := flag.NewFlagSet("check", flag.ExitOnError)
	repo := fs.String("repo", "/repo", "repository root")
	verifDir := fs.String("verif", "/verif", "verif root")
	prop := fs.String("prop", "", "property id")
	tier := fs.String("tier", "quick", "quick|thorough")
	scratch := fs.String("scratch", "", "scratch directory")
	modfile := fs.String("modfile", "", "alternate go.mod")
	seed := fs.Int("seed", 0, "seed")
	writeLedger := fs.Bool("write-ledger", false, "record discharged obligations in the ledger (maintenance)")
	overlayFile := fs.String("overlay", "", "JSON map file->replacement file (selftest)")
	noEvidence := fs.Bool("no-evidence", false, "do not write the evidence file")
	fs.Parse(args)
	t0 := time.Now()
	if env := os.Getenv("VERIF_SEED"); env != "" {
		if n, err := strconv.Atoi(env); err == nil {
			*seed = n
		}
	}
	if env := os.Getenv("VERIF_TIER"); env != "" && (env == "quick" || env == "thorough") {
		explicit := false
		fs.Visit(func(f *flag.Flag) {
			if f.Name == "tier" {
				explicit = true
			}
		})
		if !explicit {
			*tier = env
		}
	}
	cfgs := map[string]*PropCfg{}
	data, err := os.ReadFile(filepath.Join(*verifDir, "contracts", "properties.json"))
	if err != nil {
		fatal(2, "cannot read properties.json: %v", err)
	}
	if err := json.Unmarshal(data, &cfgs); err != nil {
		fatal(2, "properties.json: %v", err)
	}
	pc := cfgs[*prop]
	if pc == nil {
		fatal(2, "property %s is not configured", *prop)
	}
	overlay := map[string][]byte{}
	if *overlayFile != "" {
		var m map[string]string
		d, err := os.ReadFile(*overlayFile)
		if err != nil {
			fatal(2, "overlay: %v", err)
		}
		if err := json.Unmarshal(d, &m); err != nil {
			fatal(2, "overlay: %v", err)
		}
		for k, v := range m {
			b, err := os.ReadFile(v)
			if err != nil {
				fatal(2, "overlay: %v", err)
			}
			overlay[k] = b
		}
	}
	eng, err := loadEngineOverlay(*repo, pc.Packages, filepath.Join(*verifDir, "contracts", "externs"), *modfile, overlay)
	if err != nil {
		fmt.Printf("UNDECIDED property=%s cannot load /repo: %v\n", *prop, err)
		os.Exit(2)
	}
	loadS := time.Since(t0).Seconds()
	if *scratch == "" {
		d, _ := os.MkdirTemp("", "govc")
		*scratch = d
		defer os.RemoveAll(d)
	}
	// generous per-obligation budgets: on the pinned tree every claimed obligation discharges in a
	// few seconds; the slack is for a loaded machine (a timeout must never become a false alarm)
	timeout := 60 * time.Second
	if *tier == "thorough" {
		timeout = 180 * time.Second
	}
	cfg := &SolverCfg{quickTimeout: timeout, scratch: *scratch, parallel: 16, seed: *seed, thorough: *tier == "thorough"}

	var all []*Oblig
	var covers []*Oblig
	var ctxs []*FnCtx
	var structural []string
	for _, k := range pc.Functions {
		fc := eng.cs.Funcs[k]
		if fc == nil {
			structural = append(structural, "no contract for "+k)
			continue
		}
		fn := eng.findFunction(fc)
		if fn == nil {
			structural = append(structural, "contract target not found in /repo: "+k)
			continue
		}
		c := newFnCtx(eng, fn, fc, k)
		c.verify()
		c.checkLoopCount()
		c.checkAssertsSeen()
		ctxs = append(ctxs, c)
		var drift []string
		for _, e := range c.errs {
			if contractDrift.MatchString(e) {
				drift = append(drift, e)
				continue
			}
			structural = append(structural, k+": "+e)
		}
		if len(drift) > 0 {
			// the contract names locals, loops, fields or calls that the function no longer has: the
			// obligations stated over them cannot be generated, let alone discharged - reported as one
			// failed obligation of that function (it passed while the code matched the contract)
			c.obligs = append(c.obligs, &Oblig{Name: k + "#contract_matches_code", Kind: "contract", Goal: "false", NDecl: -1,
				Pos: c.pos(fn.Pos()), Text: "the contract no longer matches the function: " + strings.Join(drift, "; "), Fn: c})
		}
		all = append(all, c.obligs...)
		covers = append(covers, c.covers...)
	}
	genS := time.Since(t0).Seconds() - loadS
	tSolve := time.Now()
	// obligations recorded as known findings are expected to fail: do not spend the full budget
	preFindings := readFindings(filepath.Join(*verifDir, "known_findings.txt"))
	for _, o := range all {
		for _, f := range preFindings {
			if f.Kind == "finding" && f.Property == *prop && f.Obligation == shortOb(o.Name) {
				o.Budget = 10 * time.Second
			}
		}
	}
	dischargeAll(append(append([]*Oblig{}, all...), covers...), cfg)
	solveWall := time.Since(tSolve).Seconds()

	// group by name
	groups := map[string]*obGroup{}
	var names []string
	for _, o := range all {
		g := groups[o.Name]
		if g == nil {
			g = &obGroup{Name: o.Name, Kind: o.Kind, Text: o.Text}
			groups[o.Name] = g
			names = append(names, o.Name)
		}
		g.Instances = append(g.Instances, o)
	}
	sort.Strings(names)

	// ledger
	ledgerPath := filepath.Join(*verifDir, "contracts", "ledger.json")
	ledger := map[string]map[string]int{}
	if d, err := os.ReadFile(ledgerPath); err == nil {
		json.Unmarshal(d, &ledger)
	}
	if *writeLedger {
		m := map[string]int{}
		for _, n := range names {
			if groups[n].ok() {
				m[n] = len(groups[n].Instances)
			}
		}
		ledger[*prop] = m
		d, _ := json.MarshalIndent(ledger, "", " ")
		os.WriteFile(ledgerPath, d, 0o644)
	}
	base := ledger[*prop]

	findings := readFindings(filepath.Join(*verifDir, "known_findings.txt"))
	replayDir := filepath.Join(*verifDir, "replays", *prop)
	violations := 0
	known := 0
	discharged, instances := 0, 0
	byBackend := map[string]int{}
	var solverMs int64
	var samples []map[string]any
	var undecided []string
	var knownObs []string
	for _, n := range names {
		g := groups[n]
		listed := false
		for _, f := range findings {
			if f.Kind == "finding" && f.Property == *prop && f.Obligation == shortOb(n) {
				listed = true
			}
		}
		if listed && !g.ok() {
			// a recorded known finding: reported below, not part of the proved set
			knownObs = append(knownObs, shortOb(n))
			for _, o := range g.Instances {
				solverMs += o.Millis
			}
		} else {
			instances += len(g.Instances)
			for _, o := range g.Instances {
				solverMs += o.Millis
				if o.Status == "unsat" {
					discharged++
					byBackend[o.Solver]++
				}
			}
		}
		if len(samples) < 12 && g.ok() {
			o := g.Instances[0]
			samples = append(samples, map[string]any{"obligation": n, "kind": g.Kind, "clause": g.Text, "instances": len(g.Instances),
				"solver": o.Solver, "ms": o.Millis, "at": fmt.Sprintf("%s:%d", shortFile(o.Pos.Filename), o.Pos.Line)})
		}
		if g.ok() {
			continue
		}
		// failing obligation
		isKnown := false
		for _, f := range findings {
			if f.Kind == "finding" && f.Property == *prop && f.Obligation == shortOb(n) {
				fmt.Printf("KNOWN-FINDING: property=%s obligation=%s %s\n", *prop, shortOb(n), f.Text)
				isKnown = true
				known++
				break
			}
		}
		if isKnown {
			continue
		}
		violations++
		path, confirmed := writeReplay(eng, *verifDir, replayDir, *prop, g, base, *scratch, *modfile)
		suffix := ""
		if !confirmed {
			suffix = " obligation=" + shortOb(n) + " no-failing-input-found"
		} else {
			suffix = " obligation=" + shortOb(n)
		}
		fmt.Printf("VIOLATION property=%s replay=%s%s\n", *prop, path, suffix)
	}
	// vacuity: covers must be satisfiable
	coverBad := 0
	coverSeen := map[string]bool{}
	coverOK := map[string]bool{}
	for _, o := range covers {
		coverSeen[o.Name] = true
		// a cover fails only when the solver refutes the path condition (unsat = contradiction in
		// the assumptions); with quantified assumptions a satisfiable query often answers "unknown"
		if o.Status != "unsat" {
			coverOK[o.Name] = true
		}
	}
	var coverNames []string
	for n := range coverSeen {
		coverNames = append(coverNames, n)
	}
	sort.Strings(coverNames)
	for _, n := range coverNames {
		if !coverOK[n] {
			if strings.HasSuffix(n, "#cover:entry") {
				coverBad++
				structural = append(structural, "vacuous precondition: "+n)
			} else {
				undecided = append(undecided, "unreachable return: "+n)
			}
		}
	}
	if len(names) < pc.MinObligations || len(names) == 0 {
		structural = append(structural, fmt.Sprintf("only %d obligations generated, expected at least %d", len(names), pc.MinObligations))
	}
	crossChecked := 0
	for _, o := range all {
		if len(o.Cross) > 0 {
			crossChecked++
		}
		if o.Disagree {
			structural = append(structural, fmt.Sprintf("solver disagreement on %s: %s says %s, others %v", o.Name, o.Solver, o.Status, o.Cross))
		}
	}

	// evidence
	var fnsUnder []string
	abstracted := map[string]bool{}
	notes := map[string]bool{}
	trusted := map[string]bool{}
	inlined := map[string]bool{}
	for _, c := range ctxs {
		fnsUnder = append(fnsUnder, c.key)
		for a := range c.abstracted {
			abstracted[a] = true
		}
		for n := range c.notes {
			notes[n] = true
		}
		for k, fc := range c.usedContracts {
			if fc.Trusted || fc.Extern {
				trusted["assumed contract: "+k] = true
			} else {
				found := false
				for _, f := range pc.Functions {
					if f == k {
						found = true
					}
				}
				if !found {
					trusted["contract used but verified under another property or not at all: "+k] = true
				}
			}
		}
		for k := range c.inlined {
			inlined[k] = true
		}
		for k := range c.usedSpecFns {
			trusted["uninterpreted spec function: "+k] = true
		}
		for k := range c.usedSums {
			trusted["ghost sum "+k+": maintained by the generator at every map update; assumes the summand of a stored entry does not change while it is stored"] = true
		}
	}
	tb := []string{"govc (VC generator written for this task: loader, go/ssa symbolic executor, contract parser)", "golang.org/x/tools/go/ssa v0.29.0",
		"SMT solvers z3 5.1.0 / z3 4.8.12 / cvc5 1.0.3", "integers: exact machine semantics for + - * and conversions (SMT Int with wrap-around); spec integers are mathematical",
		"monitor rule for lock invariants (applied by the generator, not mechanised)"}
	tb = append(tb, sortedKeys(trusted)...)
	assumptions := append([]string{}, pc.Assumptions...)
	assumptions = append(assumptions, "callees without a contract that are not inlined are assumed not to modify state mentioned in contracts; their results are unconstrained")
	for _, a := range sortedKeys(abstracted) {
		assumptions = append(assumptions, "abstracted call: "+a)
	}
	for _, a := range sortedKeys(notes) {
		assumptions = append(assumptions, "note: "+a)
	}
	ev := map[string]any{
		"property_id": *prop,
		"tier":        *tier,
		"seed":        *seed,
		"level":       "proof",
		"coverage": map[string]any{
			"obligations":              instances,
			"discharged":               discharged,
			"distinct_obligations":     len(names),
			"checker_cmd":              fmt.Sprintf("./check %s %s", *prop, *tier),
			"trusted_base":             tb,
			"functions_under_contract": fnsUnder,
			"inlined_callees":          sortedKeys(inlined),
			"by_backend":               byBackend,
			"solver_time_s":            float64(solverMs) / 1000,
			"solve_wall_s":             solveWall,
			"load_s":                   loadS,
			"vcgen_s":                  genS,
			"samples":                  samples,
			"covers_checked":           len(coverNames),
			"cross_checked_by_other_solvers": crossChecked,
			"covers_unreachable":       undecided,
			"known_findings":           known,
			"known_finding_obligations": knownObs,
			"not_covered":              pc.NotCovered,
			"bounded":                  pc.Bounded,
			"contract_files":           relFiles(eng.files),
			"structural_problems":      structural,
		},
		"assumptions": assumptions,
		"wall_s":      time.Since(t0).Seconds(),
		"violations":  violations,
	}
	if !*noEvidence {
		os.MkdirAll(filepath.Join(*verifDir, "evidence"), 0o755)
		d, _ := json.MarshalIndent(ev, "", " ")
		os.WriteFile(filepath.Join(*verifDir, "evidence", *prop+".json"), d, 0o644)
	}
	fmt.Printf("property=%s tier=%s functions=%d obligations=%d (distinct %d) discharged=%d violations=%d known=%d wall=%.1fs\n",
		*prop, *tier, len(ctxs), instances, len(names), discharged, violations, known, time.Since(t0).Seconds())
	if violations > 0 {
		os.Exit(1)
	}
	if len(structural) > 0 {
		for _, s := range structural {
			fmt.Printf("UNDECIDED property=%s %s\n", *prop, s)
		}
		os.Exit(2)
	}
}

func sortedKeys(m map[string]bool) []string {
	var out []string
	for k := range m {
		out = append(out, k)
	}
	sort.Strings(out)
	return out
}

func relFiles(fs []string) []string {
	var out []string
	for _, f := range fs {
		out = append(out, strings.TrimPrefix(f, "/verif/"))
	}
	sort.Strings(out)
	return out
}

func shortOb(n string) string {
	return strings.TrimPrefix(n, modulePath+"/")
}

func fatal(code int, f string, a ...any) {
	fmt.Fprintf(os.Stderr, f+"\n", a...)
	os.Exit(code)
}

var unsafeName = regexp.MustCompile(`[^A-Za-z0-9_.#:@-]+`)

// contractDrift: contract evaluation errors that mean the code no longer has what the contract names.
var contractDrift = regexp.MustCompile(`unknown identifier|no field|contract mentions loop|no map iterator|no call .* reached|has no parameter|loop without invariant`)

// writeReplay writes the replay file of a failed obligation and tries to reproduce the
// counterexample on the real code. Returns the path and whether a failing input was confirmed.
func writeReplay(eng *Engine, verifDir, dir, prop string, g *obGroup, base map[string]int, scratch, modfile string) (string, bool) {
	os.MkdirAll(dir, 0o755)
	fname := unsafeName.ReplaceAllString(shortOb(g.Name), "_")
	path := filepath.Join(dir, fname+".json")
	var inst *Oblig
	for _, o := range g.Instances {
		if o.Status == "sat" {
			inst = o
			break
		}
	}
	if inst == nil {
		for _, o := range g.Instances {
			if o.Status != "unsat" {
				inst = o
				break
			}
		}
	}
	model := map[string]string{}
	if inst.Status == "sat" {
		model = parseModel(inst)
	}
	rep := map[string]any{
		"property":               prop,
		"obligation":             g.Name,
		"kind":                   g.Kind,
		"clause":                 g.Text,
		"at":                     fmt.Sprintf("%s:%d", shortFile(inst.Pos.Filename), inst.Pos.Line),
		"status":                 inst.Status,
		"solver":                 inst.Solver,
		"solver_output":          truncate(inst.Model, 4000),
		"model":                  model,
		"discharged_on_baseline": base[g.Name] > 0,
	}
	if q, err := os.ReadFile(inst.SMTFile); err == nil {
		qp := filepath.Join(dir, fname+".smt2")
		os.WriteFile(qp, q, 0o644)
		rep["smt_query"] = qp
	}
	confirmed := false
	// scripted replay template
	tmpl := filepath.Join(verifDir, "contracts", "replay", unsafeName.ReplaceAllString(shortOb(g.Name), "_")+".go.tmpl")
	if _, err := os.Stat(tmpl); err != nil {
		// fall back to a per-function template
		fn := shortOb(g.Name)
		if i := strings.Index(fn, "#"); i >= 0 {
			fn = fn[:i]
		}
		tmpl = filepath.Join(verifDir, "contracts", "replay", unsafeName.ReplaceAllString(fn, "_")+".go.tmpl")
		// a per-function template applies to every obligation of the function only if it says so
		// (it must then evaluate the function's whole contract on the model's input)
		if src, err := os.ReadFile(tmpl); err != nil || !strings.Contains(string(src), "// replay-scope: function") {
			tmpl = ""
		}
	}
	if src, err := os.ReadFile(tmpl); err == nil {
		out, ok, testSrc := runReplay(eng, string(src), model, inst, scratch, modfile)
		rep["replay_template"] = strings.TrimPrefix(tmpl, verifDir+"/")
		rep["replay_test"] = testSrc
		rep["replay_output"] = truncate(out, 4000)
		rep["replay_confirmed"] = ok
		confirmed = ok
	} else {
		rep["replay_confirmed"] = false
		rep["replay_note"] = "no replay template for this obligation; the solver output above is the evidence"
	}
	d, _ := json.MarshalIndent(rep, "", " ")
	os.WriteFile(path, d, 0o644)
	return path, confirmed
}

func parseModel(o *Oblig) map[string]string {
	m := map[string]string{}
	xs := parseSexprs(o.Model)
	// first sexpr is the atom "sat"; the next is the list of (term value) pairs
	var pairs []*sx
	for _, x := range xs {
		if x.list != nil {
			pairs = x.list
			break
		}
	}
	idx := 0
	for _, v := range o.Vars {
		i := strings.Index(v, "=")
		if i < 0 {
			continue
		}
		if idx < len(pairs) && len(pairs[idx].list) == 2 {
			if val := pairs[idx].list[1].simpleValue(); val != "" {
				m[v[:i]] = val
			}
		}
		idx++
	}
	return m
}

// runReplay instantiates a replay template with model values and runs it against the real code
// with go test -overlay (nothing is written to /repo).
func runReplay(eng *Engine, tmpl string, model map[string]string, o *Oblig, scratch, modfile string) (string, bool, string) {
	src := tmpl
	// {{name}} or {{name|default}}: model value of the named input, else the default (else 0)
	src = regexp.MustCompile(`\{\{([^}|]*)(\|[^}]*)?\}\}`).ReplaceAllStringFunc(src, func(m string) string {
		body := m[2 : len(m)-2]
		name, def := body, "0"
		if i := strings.Index(body, "|"); i >= 0 {
			name, def = body[:i], body[i+1:]
		}
		if v, ok := model[strings.TrimSpace(name)]; ok {
			return v
		}
		return def
	})
	// first line: "// replay-dir: <relative package dir>"
	dirRe := regexp.MustCompile(`(?m)^// replay-dir:\s*(\S+)`)
	mt := dirRe.FindStringSubmatch(src)
	if mt == nil {
		return "template lacks replay-dir", false, src
	}
	pkgDir := mt[1]
	testFile := filepath.Join(eng.repo, pkgDir, "zz_verif_replay_test.go")
	tmpTest := filepath.Join(scratch, fmt.Sprintf("replay_%d_test.go", time.Now().UnixNano()))
	if err := os.WriteFile(tmpTest, []byte(src), 0o644); err != nil {
		return err.Error(), false, src
	}
	ov := map[string]any{"Replace": map[string]string{testFile: tmpTest}}
	ovd, _ := json.Marshal(ov)
	ovFile := tmpTest + ".overlay.json"
	os.WriteFile(ovFile, ovd, 0o644)
	args := []string{"test", "-overlay", ovFile, "-vet=off", "-count=1", "-v", "-timeout", "60s", "-run", "TestVerifReplay", "./" + pkgDir}
	if modfile != "" {
		args = append([]string{"test", "-modfile=" + modfile}, args[1:]...)
	}
	cmd := exec.Command("go", args...)
	cmd.Dir = eng.repo
	cmd.Env = os.Environ()
	out, _ := cmd.CombinedOutput()
	s := string(out)
	return s, strings.Contains(s, "REPLAY-CONFIRMED"), src
}
