package main

// Loop handling: invariants are asserted on entry and at back edges; on entry everything the
// loop may write is havoc'd and the invariants are assumed.

import (
	"fmt"
	"go/token"
	"go/types"
	"sort"
	"strings"

	"golang.org/x/tools/go/ssa"
)

func (c *FnCtx) loopInvEnv(frame *Frame, l *Loop, st *State) *SpecEnv {
	env := &SpecEnv{c: c, st: st, heap: st.heap, vars: map[string]Val{}, pkg: frame.fn.Pkg.Pkg, frame: frame, at: l.Header, loop: l}
	names := frame.contract.Names
	old := &SpecEnv{c: c, st: st, heap: st.oldHeap, vars: map[string]Val{}, pkg: env.pkg, frame: frame, isOld: true, alloc: st.oldAlloc}
	for i, p := range frame.fn.Params {
		n := p.Name()
		if i < len(names) {
			n = names[i]
		}
		old.vars[n] = st.env[p]
		env.vars[n] = st.env[p]
	}
	// header phis shadow parameters
	for _, in := range l.Header.Instrs {
		phi, ok := in.(*ssa.Phi)
		if !ok {
			break
		}
		if phi.Comment != "" {
			env.vars[phi.Comment] = st.env[phi]
		}
	}
	env.old = old
	env.entryHeap = st.loopEntry[frame.id*1000+l.Ord]
	return env
}

func (c *FnCtx) loopEnter(frame *Frame, l *Loop, from *ssa.BasicBlock, st *State) {
	c.evalPhis(l.Header, from, st)
	invs := frame.contract.Invs[l.Ord]
	// tie map iterators defined before the loop to this loop
	for _, b := range sortedBlocks(l.Blocks) {
		for _, in := range b.Instrs {
			if nx, ok := in.(*ssa.Next); ok {
				if it := st.iters[nx.Iter]; it != nil && it.Ord < 0 {
					it.Ord = l.Ord
					it.NoWrite = !c.loopDeletesMap(l, it.MapKey)
				}
			}
		}
	}
	// snapshot for entry(...): the heap when this loop is entered
	{
		ne := make(map[int]map[string]string, len(st.loopEntry)+1)
		for k, v := range st.loopEntry {
			ne[k] = v
		}
		ne[frame.id*1000+l.Ord] = copyHeap(st.heap)
		st.loopEntry = ne
	}
	// establish
	env := c.loopInvEnv(frame, l, st)
	for _, inv := range invs {
		t, err := c.evalBool(env, inv.Expr)
		if err != nil {
			c.errs = append(c.errs, fmt.Sprintf("%s:%d: loop %d invariant %s: %v", inv.File, inv.Line, l.Ord, inv.Label, err))
			continue
		}
		c.addOblig(st, fmt.Sprintf("loop%d:inv:%s:establish", l.Ord, inv.Label), "invariant", t, inv.Text, l.Header.Instrs[0].Pos())
	}
	// havoc
	c.havocLoop(frame, l, st)
	// assume
	env = c.loopInvEnv(frame, l, st)
	for _, inv := range invs {
		t, err := c.evalBool(env, inv.Expr)
		if err != nil {
			continue
		}
		st.assume(t)
	}
	// snapshot for iterstart(...): the heap in which an arbitrary iteration starts
	{
		ni := make(map[int]map[string]string, len(st.loopIter)+1)
		for k, v := range st.loopIter {
			ni[k] = v
		}
		ni[frame.id*1000+l.Ord] = copyHeap(st.heap)
		st.loopIter = ni
	}
	c.execInstrs(frame, l.Header, firstNonPhi(l.Header), st)
}

// innermostLoop returns the smallest loop of the frame that contains block b (nil if none).
func innermostLoop(frame *Frame, b *ssa.BasicBlock) *Loop {
	var best *Loop
	for _, l := range frame.loops {
		if l.Blocks[b] && (best == nil || len(l.Blocks) < len(best.Blocks)) {
			best = l
		}
	}
	return best
}

func (c *FnCtx) loopBack(frame *Frame, l *Loop, from *ssa.BasicBlock, st *State) {
	c.evalPhis(l.Header, from, st)
	env := c.loopInvEnv(frame, l, st)
	for _, inv := range frame.contract.Invs[l.Ord] {
		t, err := c.evalBool(env, inv.Expr)
		if err != nil {
			c.errs = append(c.errs, fmt.Sprintf("%s:%d: loop %d invariant %s: %v", inv.File, inv.Line, l.Ord, inv.Label, err))
			continue
		}
		c.addOblig(st, fmt.Sprintf("loop%d:inv:%s:preserve", l.Ord, inv.Label), "invariant", t, inv.Text, from.Instrs[len(from.Instrs)-1].Pos())
	}
}

func sortedBlocks(m map[*ssa.BasicBlock]bool) []*ssa.BasicBlock {
	var bs []*ssa.BasicBlock
	for b := range m {
		bs = append(bs, b)
	}
	sort.Slice(bs, func(i, j int) bool { return bs[i].Index < bs[j].Index })
	return bs
}

func (c *FnCtx) loopDeletesMap(l *Loop, mapKey string) bool {
	for b := range l.Blocks {
		for _, in := range b.Instrs {
			switch x := in.(type) {
			case *ssa.Call:
				if bi, ok := x.Call.Value.(*ssa.Builtin); ok {
					if bi.Name() == "delete" && mapKeyOf(x.Call.Args[0].Type()) == mapKey {
						return true
					}
					continue
				}
				if c.calleeMayWriteMap(&x.Call, mapKey, 0) {
					return true
				}
			}
		}
	}
	return false
}

// calleeMayWriteMap: conservative syntactic check through contracts / inlinable bodies.
func (c *FnCtx) calleeMayWriteMap(call *ssa.CallCommon, mapKey string, depth int) bool {
	f := call.StaticCallee()
	if f == nil {
		return false // unknown callees are assumed not to modify contract-visible state (listed)
	}
	key := contractKeyForFunc(f)
	if fc := c.eng.cs.Funcs[key]; fc != nil && !fc.Inline {
		for _, m := range fc.Modifies {
			if m.Kind == "map" || m.Kind == "all" {
				return true
			}
		}
		return false
	}
	if f.Blocks == nil || depth > 2 {
		return false
	}
	for _, b := range f.Blocks {
		for _, in := range b.Instrs {
			switch x := in.(type) {
			case *ssa.Call:
				if bi, ok := x.Call.Value.(*ssa.Builtin); ok {
					if bi.Name() == "delete" && mapKeyOf(x.Call.Args[0].Type()) == mapKey {
						return true
					}
					continue
				}
				if c.calleeMayWriteMap(&x.Call, mapKey, depth+1) {
					return true
				}
			}
		}
	}
	return false
}

// loopFx carries what is needed to compute the heap effects of a loop body.
type loopFx struct {
	c         *FnCtx
	frame     *Frame
	l         *Loop
	st        *State
	stored    map[string]bool
	storedAll bool
}

// stable resolves an SSA value (through parameter substitution of inlined callees) to a value
// of the verified function that is defined outside the loop, and returns its symbolic value.
func (fx *loopFx) stable(v ssa.Value, subst map[ssa.Value]ssa.Value) (Val, bool) {
	for i := 0; i < 8; i++ {
		if w, ok := subst[v]; ok {
			v = w
			continue
		}
		break
	}
	if v == nil {
		return Val{}, false
	}
	switch x := v.(type) {
	case *ssa.Parameter:
		if x.Parent() != fx.frame.fn {
			return Val{}, false
		}
	case *ssa.Global, *ssa.Const:
		return fx.c.val(fx.st, v), true
	case *ssa.UnOp:
		// a load of a field that the loop never stores to, from a stable object, is stable
		if fa, ok := x.X.(*ssa.FieldAddr); ok && x.Op == token.MUL {
			stt := fa.X.Type().Underlying().(*types.Pointer).Elem()
			fname := stt.Underlying().(*types.Struct).Field(fa.Field).Name()
			if !fx.storedAll && !fx.stored[typeName(stt)+"|"+fname] && !fx.stored["*|"+fname] {
				if obj, ok := fx.stable(fa.X, subst); ok {
					if base := fx.c.addrOfPointer(obj); base != nil {
						ft := stt.Underlying().(*types.Struct).Field(fa.Field).Type()
						a := &Addr{Space: base.Space, Key: base.Key, Idx: base.Idx, Path: joinPath(base.Path, fname), T: ft}
						return fx.c.loadAt(fx.st.heap, a), true
					}
				}
			}
		}
		in := ssa.Instruction(x)
		if in.Parent() != fx.frame.fn || in.Block() == nil || fx.l.Blocks[in.Block()] {
			return Val{}, false
		}
	default:
		in, ok := v.(ssa.Instruction)
		if !ok || in.Parent() != fx.frame.fn || in.Block() == nil || fx.l.Blocks[in.Block()] {
			return Val{}, false
		}
	}
	val, ok := fx.st.env[v]
	return val, ok
}

// collectStored records which struct fields the blocks (and inlinable callees) may store to.
func (fx *loopFx) collectStored(blocks []*ssa.BasicBlock, depth int) {
	c := fx.c
	for _, b := range blocks {
		for _, in := range b.Instrs {
			switch x := in.(type) {
			case *ssa.Store:
				v := x.Addr
				for {
					fa, ok := v.(*ssa.FieldAddr)
					if !ok {
						break
					}
					stt := fa.X.Type().Underlying().(*types.Pointer).Elem()
					fx.stored[typeName(stt)+"|"+stt.Underlying().(*types.Struct).Field(fa.Field).Name()] = true
					v = fa.X
				}
			case *ssa.Call, *ssa.Defer:
				var call *ssa.CallCommon
				if cc, ok := x.(*ssa.Call); ok {
					call = &cc.Call
				} else {
					call = &x.(*ssa.Defer).Call
				}
				callee := call.StaticCallee()
				key := ""
				if call.IsInvoke() {
					if n, ok := call.Value.Type().(*types.Named); ok && n.Obj().Pkg() != nil {
						key = n.Obj().Pkg().Path() + "." + n.Obj().Name() + "." + call.Method.Name()
					}
				} else if callee != nil {
					key = contractKeyForFunc(callee)
				}
				if c.isLockCall(key) {
					// guarded fields change at Lock
					if len(call.Args) > 0 {
						if fa, ok := call.Args[0].(*ssa.FieldAddr); ok {
							stt := fa.X.Type().Underlying().(*types.Pointer).Elem()
							mutex := stt.Underlying().(*types.Struct).Field(fa.Field).Name()
							if li := c.findLockInv(typeName(stt), mutex); li != nil {
								for _, g := range li.Guards {
									if !strings.HasPrefix(g, "contents ") && !strings.HasPrefix(g, "type ") {
										fx.stored[typeName(stt)+"|"+g] = true
									}
								}
							}
						}
					}
					continue
				}
				fc := c.eng.cs.Funcs[key]
				if fc != nil && !(fc.Inline && callee != nil) {
					for _, m := range fc.Modifies {
						if m.Kind == "field" {
							fx.stored["*|"+m.Name] = true
						}
						if m.Kind == "all" {
							fx.storedAll = true
						}
					}
					continue
				}
				if callee != nil && callee.Blocks != nil && depth < 3 && (c.canInline(callee) || (fc != nil && fc.Inline)) {
					fx.collectStored(callee.Blocks, depth+1)
				}
			}
		}
	}
}

// havocLoop havocs everything the loop body may modify.
func (c *FnCtx) havocLoop(frame *Frame, l *Loop, st *State) {
	// objects allocated by earlier iterations exist at the loop head: widen the allocated set
	{
		na := c.fresh("alloc", "(Array Int Bool)")
		st.assume(fmt.Sprintf("(forall ((r Int)) (=> (select %s r) (select %s r)))", st.alloc, na))
		st.assume(not(sel(na, "0")))
		st.alloc = na
	}
	// 1. header phis
	for _, in := range l.Header.Instrs {
		phi, ok := in.(*ssa.Phi)
		if !ok {
			break
		}
		v := c.freshVal(st, phi.Type(), "loop."+phi.Comment)
		c.assumeAllocated(st, v)
		st.env[phi] = v
	}
	// 2. heap effects
	fx := &loopFx{c: c, frame: frame, l: l, st: st, stored: map[string]bool{}}
	fx.collectStored(sortedBlocks(l.Blocks), 0)
	// iterators advanced in the loop
	for _, b := range sortedBlocks(l.Blocks) {
		for _, in := range b.Instrs {
			x, ok := in.(*ssa.Next)
			if !ok {
				continue
			}
			if it := st.iters[x.Iter]; it != nil && it.IsMap {
				it2 := *it
				it2.V = c.fresh("iter.V", "(Array Int Bool)")
				it2.Count = c.fresh("iter.n", "Int")
				st.assume("(>= " + it2.Count + " 0)")
				st.iters[x.Iter] = &it2
			}
		}
	}
	fx.effects(sortedBlocks(l.Blocks), nil, 0)
	// iterator facts are stated against the post-havoc heap
	for _, b := range sortedBlocks(l.Blocks) {
		for _, in := range b.Instrs {
			x, ok := in.(*ssa.Next)
			if !ok {
				continue
			}
			if it := st.iters[x.Iter]; it != nil && it.IsMap && it.NoWrite {
				d := c.heapGet(st.heap, arrName("D", it.MapKey, "", "Bool"))
				unchanged := eq(sel(d, it.Map.S), it.StartD)
				st.assume(implies(unchanged, fmt.Sprintf("(forall ((k Int)) (=> (select %s k) (select %s k)))", it.V, it.StartD)))
				st.assume(implies(unchanged, fmt.Sprintf("(<= %s %s)", it.Count, it.StartL)))
			}
		}
	}
}

func (fx *loopFx) havocArraysOf(space, key string, t types.Type, path string) {
	for _, lf := range leavesOf(t) {
		fx.c.heapHavoc(fx.st, arrName(space, key, joinPath(path, lf.Path), lf.Sort))
	}
}

func (fx *loopFx) effects(blocks []*ssa.BasicBlock, subst map[ssa.Value]ssa.Value, depth int) {
	for _, b := range blocks {
		for _, in := range b.Instrs {
			switch x := in.(type) {
			case *ssa.Store:
				fx.storeTarget(x.Addr, subst)
			case *ssa.MapUpdate:
				fx.mapTarget(x.Map, subst)
			case *ssa.Send:
				nv := fx.c.heapHavoc(fx.st, arrName("S", "sent", "", "Int"))
				fx.st.assume("(forall ((r Int)) (>= (select " + nv + " r) 0))")
			case *ssa.Call:
				fx.callEffects(&x.Call, subst, depth)
			case *ssa.Defer:
				fx.callEffects(&x.Call, subst, depth)
			}
		}
	}
}

// storeTarget havocs the location(s) a store may hit.
func (fx *loopFx) storeTarget(addr ssa.Value, subst map[ssa.Value]ssa.Value) {
	c, st := fx.c, fx.st
	// walk down to the root
	path := ""
	v := addr
	for {
		if x, ok := v.(*ssa.FieldAddr); ok {
			stt := x.X.Type().Underlying().(*types.Pointer).Elem().Underlying().(*types.Struct)
			path = joinPath(stt.Field(x.Field).Name(), path)
			v = x.X
			continue
		}
		break
	}
	pt, ok := addr.Type().Underlying().(*types.Pointer)
	if !ok {
		return
	}
	target := pt.Elem()
	havocAt := func(space, key string, obj string) {
		for _, lf := range leavesOf(target) {
			name := arrName(space, key, joinPath(path, lf.Path), lf.Sort)
			arr := c.heapGet(st.heap, name)
			nv := c.fresh("havoc.loc", lf.Sort)
			if f := rangeFact(lf.T, nv); f != "" && kindOf(lf.T) == KInt && !strings.Contains(lf.Path, "#") {
				st.assume(f)
			}
			c.heapSet(st, name, sto(arr, obj, nv))
		}
	}
	switch x := v.(type) {
	case *ssa.IndexAddr:
		var et types.Type
		switch t := x.X.Type().Underlying().(type) {
		case *types.Slice:
			et = t.Elem()
		case *types.Pointer:
			et = t.Elem().Underlying().(*types.Array).Elem()
		}
		if et == nil {
			return
		}
		if xv, ok := fx.stable(x.X, subst); ok {
			base := ""
			if xv.K == KSlice {
				base = xv.Base()
			} else if a := c.addrOfPointer(xv); a != nil && a.Space == "M" {
				base = a.Idx[0]
			}
			if base != "" {
				for _, lf := range leavesOf(target) {
					name := arrName("M", elemKey(et), joinPath(path, lf.Path), lf.Sort)
					arr := c.heapGet(st.heap, name)
					c.heapSet(st, name, sto(arr, base, c.fresh("havoc.row", "(Array Int "+lf.Sort+")")))
				}
				return
			}
		}
		{
			// element of an array allocated inside the loop (e.g. the varargs array of an append)
			w := x.X
			for i := 0; i < 8; i++ {
				if u, ok := subst[w]; ok {
					w = u
					continue
				}
				break
			}
			if _, isAlloc := w.(*ssa.Alloc); isAlloc {
				return
			}
		}
		fx.havocArraysOf("M", elemKey(et), target, path)
	case *ssa.Global:
		fx.havocArraysOf("G", x.Pkg.Pkg.Path()+"."+x.Name(), target, path)
	default:
		rpt, ok := v.Type().Underlying().(*types.Pointer)
		if !ok {
			return
		}
		el := rpt.Elem()
		space, key := "C", typeName(el)
		if kindOf(el) == KStruct {
			space = "F"
		}
		if xv, ok := fx.stable(v, subst); ok {
			if a := c.addrOfPointer(xv); a != nil && a.Space == space && a.Path == "" {
				havocAt(space, key, a.Idx[0])
				return
			}
		}
		// a store into an object allocated inside the loop body (or an inlined callee): the object
		// did not exist when the loop was entered, so no location visible at the loop head changes
		// (the allocated set itself is widened at the loop head)
		w := v
		for i := 0; i < 8; i++ {
			if u, ok := subst[w]; ok {
				w = u
				continue
			}
			break
		}
		if _, isAlloc := w.(*ssa.Alloc); isAlloc {
			return
		}
		fx.havocArraysOf(space, key, target, path)
	}
}

func (fx *loopFx) mapTarget(m ssa.Value, subst map[ssa.Value]ssa.Value) {
	c, st := fx.c, fx.st
	if mv, ok := fx.stable(m, subst); ok {
		c.havocMapRow(st, mv)
		return
	}
	mt := m.Type().Underlying().(*types.Map)
	key := mapKeyOf(m.Type())
	c.heapHavoc(st, arrName("D", key, "", "Bool"))
	c.heapHavoc(st, arrName("L", "", "", "Int"))
	for _, lf := range leavesOf(mt.Elem()) {
		c.heapHavoc(st, arrName("V", key, lf.Path, lf.Sort))
	}
}

// callEffects havocs what a call inside a loop may modify.
func (fx *loopFx) callEffects(call *ssa.CallCommon, subst map[ssa.Value]ssa.Value, depth int) {
	c, st := fx.c, fx.st
	if b, ok := call.Value.(*ssa.Builtin); ok {
		switch b.Name() {
		case "delete":
			fx.mapTarget(call.Args[0], subst)
		case "append", "copy":
			if b.Name() == "append" {
				// appending writes into the slice's own backing array (or a new one). If every array the
				// slice can have is either allocated inside the loop (invisible at the loop head) or a
				// slice made before the loop in this function, only those rows change.
				if bases, ok := fx.sliceBases(call.Args[0], map[ssa.Value]bool{}); ok {
					if stt, isSlice := call.Args[0].Type().Underlying().(*types.Slice); isSlice {
						for _, base := range bases {
							for _, lf := range leavesOf(stt.Elem()) {
								name := arrName("M", elemKey(stt.Elem()), lf.Path, lf.Sort)
								arr := c.heapGet(st.heap, name)
								c.heapSet(st, name, sto(arr, base, c.fresh("havoc.row", "(Array Int "+lf.Sort+")")))
							}
						}
					}
					return
				}
			}
			if stt, ok := call.Args[0].Type().Underlying().(*types.Slice); ok {
				for _, lf := range leavesOf(stt.Elem()) {
					c.heapHavoc(st, arrName("M", elemKey(stt.Elem()), lf.Path, lf.Sort))
				}
			}
		}
		return
	}
	var key string
	callee := call.StaticCallee()
	if call.IsInvoke() {
		if n, ok := call.Value.Type().(*types.Named); ok && n.Obj().Pkg() != nil {
			key = n.Obj().Pkg().Path() + "." + n.Obj().Name() + "." + call.Method.Name()
		}
	} else if callee != nil {
		key = contractKeyForFunc(callee)
	}
	if key != "" && c.isLockCall(key) {
		c.havocGuardedByCall(st, call)
		return
	}
	fc := c.eng.cs.Funcs[key]
	if fc != nil && !(fc.Inline && callee != nil) {
		if len(fc.Modifies) == 0 {
			return
		}
		// bind the arguments that are stable across iterations; a modifies item that mentions only
		// those is havoc'd precisely, the others coarsely (whole arrays)
		env := &SpecEnv{c: c, st: st, heap: st.heap, vars: map[string]Val{}, frame: fx.frame, pkg: c.eng.pkgOf(fc.PkgPath)}
		names := c.paramNames(callee, fc, len(call.Args)+1)
		idx := 0
		if call.IsInvoke() {
			if v, ok := fx.stable(call.Value, subst); ok && idx < len(names) {
				env.vars[names[idx]] = v
			}
			idx++
		}
		for _, a := range call.Args {
			if v, ok := fx.stable(a, subst); ok && idx < len(names) {
				env.vars[names[idx]] = v
			}
			idx++
		}
		var coarse []ModItem
		for _, m := range fc.Modifies {
			save := len(c.errs)
			trial := st.clone()
			env.st, env.heap = trial, trial.heap
			c.havocModItem(trial, env, m, trial.heap)
			if len(c.errs) != save {
				c.errs = c.errs[:save]
				coarse = append(coarse, m)
				continue
			}
			env.st, env.heap = st, st.heap
			c.havocModItem(st, env, m, st.heap)
		}
		if len(coarse) == 0 {
			return
		}
		c.havocModCoarseCall(st, callee, call, fc, coarse)
		return
	}
	if callee != nil && callee.Blocks != nil && depth < 3 && (c.canInline(callee) || (fc != nil && fc.Inline)) {
		sub := map[ssa.Value]ssa.Value{}
		for k, v := range subst {
			sub[k] = v
		}
		for i, p := range callee.Params {
			if i < len(call.Args) {
				sub[p] = call.Args[i]
			}
		}
		fx.effects(callee.Blocks, sub, depth+1)
	}
}

// heapHavocRowAware havocs a whole memory array (coarse).
func (c *FnCtx) heapHavocRowAware(st *State, name string) { c.heapHavoc(st, name) }

// havocModCoarse havocs whole arrays for every modifies item, by type.
func (c *FnCtx) havocModCoarse(st *State, callee *ssa.Function, fc *FuncContract, items []ModItem) {
	c.havocModCoarseCall(st, callee, nil, fc, items)
}

func (c *FnCtx) havocModCoarseCall(st *State, callee *ssa.Function, call *ssa.CallCommon, fc *FuncContract, items []ModItem) {
	if callee == nil && call != nil && call.IsInvoke() {
		// interface method: bind the declared names to dummies of the receiver / parameter types
		dst := st.clone()
		env := &SpecEnv{c: c, st: dst, heap: dst.heap, vars: map[string]Val{}, pkg: c.eng.pkgOf(fc.PkgPath)}
		ptypes := []types.Type{call.Value.Type()}
		sig := call.Signature()
		for i := 0; i < sig.Params().Len(); i++ {
			ptypes = append(ptypes, sig.Params().At(i).Type())
		}
		names := fc.Names
		if len(names) == 0 {
			names = append(names, "")
			for i := 0; i < sig.Params().Len(); i++ {
				names = append(names, sig.Params().At(i).Name())
			}
		}
		for i, pt := range ptypes {
			if i < len(names) && names[i] != "" {
				env.vars[names[i]] = c.freshVal(dst, pt, "dummy")
			}
		}
		c.havocModCoarseEnv(st, env, items)
		return
	}
	c.havocModCoarseFn(st, callee, fc, items)
}

func (c *FnCtx) havocModCoarseFn(st *State, callee *ssa.Function, fc *FuncContract, items []ModItem) {
	// Resolve the static types of the modifies expressions through a typed dummy environment.
	dst := st.clone()
	env := &SpecEnv{c: c, st: dst, heap: dst.heap, vars: map[string]Val{}, pkg: c.eng.pkgOf(fc.PkgPath)}
	if callee != nil {
		names := c.paramNames(callee, fc, len(callee.Params))
		var ptypes []types.Type
		if sig := callee.Signature; sig != nil {
			if sig.Recv() != nil {
				ptypes = append(ptypes, sig.Recv().Type())
			}
			for i := 0; i < sig.Params().Len(); i++ {
				ptypes = append(ptypes, sig.Params().At(i).Type())
			}
		}
		for i, pt := range ptypes {
			if i < len(names) {
				env.vars[names[i]] = c.freshVal(dst, pt, "dummy")
			}
		}
	}
	c.havocModCoarseEnv(st, env, items)
}

func (c *FnCtx) havocModCoarseEnv(st *State, env *SpecEnv, items []ModItem) {
	for _, m := range items {
		switch m.Kind {
		case "every":
			for _, name := range c.everyArrays(env.pkg, m) {
				c.heapHavoc(st, name)
			}
		case "all":
			for name := range c.allArrays() {
				c.heapHavoc(st, name)
			}
		case "field":
			obj, err := c.eval(env, m.Expr)
			if err != nil {
				c.errs = append(c.errs, "modifies (coarse): "+err.Error())
				continue
			}
			owner, ok := fieldOwner(obj)
			if !ok {
				continue
			}
			ft, ghost := c.fieldType(owner, m.Name)
			if ft == nil {
				continue
			}
			path := m.Name
			if ghost {
				path = "$" + m.Name
			}
			for _, lf := range leavesOf(ft) {
				c.heapHavoc(st, arrName("F", typeName(owner), joinPath(path, lf.Path), lf.Sort))
			}
		case "map":
			mv, err := c.eval(env, m.Expr)
			if err != nil {
				continue
			}
			if mt, ok := mv.T.Underlying().(*types.Map); ok {
				key := mapKeyOf(mv.T)
				c.heapHavoc(st, arrName("D", key, "", "Bool"))
				c.heapHavoc(st, arrName("L", "", "", "Int"))
				for _, lf := range leavesOf(mt.Elem()) {
					c.heapHavoc(st, arrName("V", key, lf.Path, lf.Sort))
				}
			}
		case "mem":
			sv, err := c.eval(env, m.Expr)
			if err != nil || sv.K != KSlice {
				continue
			}
			et := sv.T.Underlying().(*types.Slice).Elem()
			for _, lf := range leavesOf(et) {
				c.heapHavoc(st, arrName("M", elemKey(et), lf.Path, lf.Sort))
			}
		case "cell":
			pv, err := c.eval(env, m.Expr)
			if err != nil {
				continue
			}
			if a := c.addrOfPointer(pv); a != nil {
				for _, lf := range leavesOf(a.T) {
					c.heapHavoc(st, arrName(a.Space, a.Key, joinPath(a.Path, lf.Path), lf.Sort))
				}
			}
		case "sent":
			c.heapHavoc(st, arrName("S", "sent", "", "Int"))
		}
	}
}
