package main

// closed_type T fields f, g (see spec.go): when a method of T under contract is verified, every
// other method of T or *T that touches one of the named fields must have a contract of its own;
// one that has none is a failed obligation - the coupling between those fields that the contracts
// rely on (for countingWriter: "n counts exactly the bytes handed to w") could be broken there.

import (
	"go/types"

	"golang.org/x/tools/go/ssa"
)

func (c *FnCtx) checkClosedType(st *State) {
	fn := c.fn
	if fn.Signature.Recv() == nil {
		return
	}
	rt := fn.Signature.Recv().Type()
	if p, ok := rt.Underlying().(*types.Pointer); ok {
		rt = p.Elem()
	}
	named, ok := types.Unalias(rt).(*types.Named)
	if !ok || named.Obj().Pkg() == nil {
		return
	}
	var ct *ClosedType
	for _, x := range c.eng.cs.ClosedTypes {
		if x.PkgPath == named.Obj().Pkg().Path() && x.Type == named.Obj().Name() {
			ct = x
		}
	}
	if ct == nil {
		return
	}
	stt, ok := named.Underlying().(*types.Struct)
	if !ok {
		return
	}
	watched := map[int]bool{}
	for i := 0; i < stt.NumFields(); i++ {
		for _, f := range ct.Fields {
			if stt.Field(i).Name() == f {
				watched[i] = true
			}
		}
	}
	for i := 0; i < named.NumMethods(); i++ {
		m := named.Method(i)
		mf := fn.Prog.FuncValue(m)
		if mf == nil || mf.Blocks == nil {
			continue
		}
		if c.eng.cs.Funcs[contractKeyForFunc(mf)] != nil {
			continue
		}
		if touchesFields(mf, named, watched) {
			c.addOblig(st, "closed_type:"+m.Name(), "closed", "false",
				"method "+m.Name()+" touches "+named.Obj().Name()+"'s fields under closed_type ("+ct.Text+") and has no contract", mf.Pos())
		}
	}
}

func touchesFields(f *ssa.Function, named *types.Named, watched map[int]bool) bool {
	isT := func(t types.Type) bool {
		if p, ok := t.Underlying().(*types.Pointer); ok {
			t = p.Elem()
		}
		n, ok := types.Unalias(t).(*types.Named)
		return ok && n.Obj() == named.Obj()
	}
	for _, b := range f.Blocks {
		for _, in := range b.Instrs {
			switch x := in.(type) {
			case *ssa.FieldAddr:
				if isT(x.X.Type()) && watched[x.Field] {
					return true
				}
			case *ssa.Field:
				if isT(x.X.Type()) && watched[x.Field] {
					return true
				}
			}
		}
	}
	return false
}

// fsMutators: the calls that change the file system directly (package os and io/ioutil), for the
// fs_effects frame clause.
var fsMutators = map[string]bool{
	"os.Remove": true, "os.RemoveAll": true, "os.Rename": true, "os.WriteFile": true, "os.Mkdir": true,
	"os.MkdirAll": true, "os.Create": true, "os.OpenFile": true, "os.Truncate": true, "os.Chmod": true,
	"os.Chown": true, "os.Symlink": true, "os.Link": true, "os.Chtimes": true, "os.MkdirTemp": true, "os.CreateTemp": true,
	"io/ioutil.WriteFile": true, "io/ioutil.TempFile": true, "io/ioutil.TempDir": true,
}
