package main

// closed_type T fields f, g (see spec.go): when a method of T under contract is verified, every
// other method of T or *T that touches one of the named fields must have a contract of its own;
// one that has none is a failed obligation - the coupling between those fields that the contracts
// rely on (for countingWriter: "n counts exactly the bytes handed to w") could be broken there.

import (
	"fmt"
	"go/types"

	"golang.org/x/tools/go/ssa"
)

func (c *FnCtx) checkClosedType(st *State) {
	fn := c.fn
	if fn.Signature.Recv() == nil {
		return
	}
	rt := fn.Signature.Recv().Type()
	if p, ok := rt.Underlying().(*types.Pointer); ok {
		rt = p.Elem()
	}
	named, ok := types.Unalias(rt).(*types.Named)
	if !ok || named.Obj().Pkg() == nil {
		return
	}
	var ct *ClosedType
	for _, x := range c.eng.cs.ClosedTypes {
		if x.PkgPath == named.Obj().Pkg().Path() && x.Type == named.Obj().Name() {
			ct = x
		}
	}
	if ct == nil {
		return
	}
	stt, ok := named.Underlying().(*types.Struct)
	if !ok {
		return
	}
	watched := map[int]bool{}
	for i := 0; i < stt.NumFields(); i++ {
		for _, f := range ct.Fields {
			if stt.Field(i).Name() == f {
				watched[i] = true
			}
		}
	}
	for i := 0; i < named.NumMethods(); i++ {
		m := named.Method(i)
		mf := fn.Prog.FuncValue(m)
		if mf == nil || mf.Blocks == nil {
			continue
		}
		if c.eng.cs.Funcs[contractKeyForFunc(mf)] != nil {
			continue
		}
		if touchesFields(mf, named, watched) {
			c.addOblig(st, "closed_type:"+m.Name(), "closed", "false",
				"method "+m.Name()+" touches "+named.Obj().Name()+"'s fields under closed_type ("+ct.Text+") and has no contract", mf.Pos())
		}
	}
}

func touchesFields(f *ssa.Function, named *types.Named, watched map[int]bool) bool {
	isT := func(t types.Type) bool {
		if p, ok := t.Underlying().(*types.Pointer); ok {
			t = p.Elem()
		}
		n, ok := types.Unalias(t).(*types.Named)
		return ok && n.Obj() == named.Obj()
	}
	for _, b := range f.Blocks {
		for _, in := range b.Instrs {
			switch x := in.(type) {
			case *ssa.FieldAddr:
				if isT(x.X.Type()) && watched[x.Field] {
					return true
				}
			case *ssa.Field:
				if isT(x.X.Type()) && watched[x.Field] {
					return true
				}
			}
		}
	}
	return false
}

// fsMutators: the calls that change the file system directly (package os and io/ioutil), for the
// fs_effects frame clause.
var fsMutators = map[string]bool{
	"os.Remove": true, "os.RemoveAll": true, "os.Rename": true, "os.WriteFile": true, "os.Mkdir": true,
	"os.MkdirAll": true, "os.Create": true, "os.OpenFile": true, "os.Truncate": true, "os.Chmod": true,
	"os.Chown": true, "os.Symlink": true, "os.Link": true, "os.Chtimes": true, "os.MkdirTemp": true, "os.CreateTemp": true,
	"io/ioutil.WriteFile": true, "io/ioutil.TempFile": true, "io/ioutil.TempDir": true,
}

// fsReaders: the calls that look at the file system by path without changing it (for fs_access,
// together with fsMutators).
var fsReaders = map[string]bool{
	"os.Stat": true, "os.Lstat": true, "os.Open": true, "os.ReadFile": true, "os.ReadDir": true, "os.Readlink": true,
	"io/ioutil.ReadFile": true, "io/ioutil.ReadDir": true,
	"path/filepath.Walk": true, "path/filepath.WalkDir": true, "path/filepath.Glob": true, "path/filepath.EvalSymlinks": true,
}

// mulTerm is a*b. In a function whose contract says `opaque_mul`, a product of two non-literal
// terms is the uninterpreted imul(a, b) - non-linear arithmetic in a path condition makes every
// later obligation on that path slow or undecided - with the facts the contracts need: it is
// commutative, non-negative for non-negative factors, and at most 100*a when 0 <= b <= 100 (the
// one bound used: percentages). Program and specification use the same term, so a specification
// that repeats the code's product is equal to it syntactically.
func (c *FnCtx) mulTerm(a, b string) string {
	if c.contract == nil || !c.contract.OpaqueMul || isIntLiteral(a) || isIntLiteral(b) {
		return "(* " + a + " " + b + ")"
	}
	if !c.declared["imul"] {
		c.declareFun("imul", []string{"Int", "Int"}, "Int")
		c.addGlobalFact("(forall ((a Int) (b Int)) (! (= (imul a b) (imul b a)) :pattern ((imul a b))))")
		c.addGlobalFact("(forall ((a Int) (b Int)) (! (=> (and (<= 0 a) (<= 0 b)) (<= 0 (imul a b))) :pattern ((imul a b))))")
		c.addGlobalFact("(forall ((a Int) (b Int)) (! (=> (and (<= 0 a) (<= 0 b) (<= b 100)) (<= (imul a b) (* 100 a))) :pattern ((imul a b))))")
	}
	return "(imul " + a + " " + b + ")"
}

func isIntLiteral(s string) bool {
	if s == "" {
		return false
	}
	if s[0] == '(' {
		// (- 5)
		return len(s) > 4 && s[:3] == "(- " && isIntLiteral(s[3:len(s)-1])
	}
	for _, r := range s {
		if r < '0' || r > '9' {
			return false
		}
	}
	return true
}

// capturedLocallyOnly: the cell of a local variable that escapes only into function literals which
// are themselves only deferred or called in place (never stored, passed on, returned or started as
// goroutines). No callee can reach such a cell, so a callee's `modifies *` does not change it.
func capturedLocallyOnly(x *ssa.Alloc) bool {
	refs := x.Referrers()
	if refs == nil {
		return false
	}
	for _, r := range *refs {
		switch u := r.(type) {
		case *ssa.Store:
			if u.Addr != x {
				return false // the address itself is stored somewhere
			}
		case *ssa.UnOp:
			// load
		case *ssa.DebugRef:
		case *ssa.MakeClosure:
			crefs := u.Referrers()
			if crefs == nil {
				return false
			}
			for _, cr := range *crefs {
				switch cu := cr.(type) {
				case *ssa.Defer:
					if cu.Call.Value != u {
						return false
					}
				case *ssa.Call:
					if cu.Call.Value != u {
						return false
					}
				case *ssa.DebugRef:
				default:
					return false
				}
			}
		default:
			return false
		}
	}
	return true
}

// checkVisitsAll: `loop K visits_all` - every edge that leaves loop K starts at its header (the
// range is exhausted / the condition is false); a break or return inside the body is a failed
// obligation.
func (c *FnCtx) checkVisitsAll(frame *Frame) {
	for _, k := range c.contract.VisitsAll {
		var l *Loop
		for _, x := range frame.loops {
			if x.Ord == k {
				l = x
			}
		}
		if l == nil {
			c.errs = append(c.errs, fmt.Sprintf("contract mentions loop %d but the function has %d loops", k, len(frame.loops)))
			continue
		}
		for b := range l.Blocks {
			if b == l.Header {
				continue
			}
			for _, s := range b.Succs {
				if !l.Blocks[s] {
					pos := c.fn.Pos()
					if len(b.Instrs) > 0 {
						pos = b.Instrs[len(b.Instrs)-1].Pos()
					}
					c.obligs = append(c.obligs, &Oblig{Name: fmt.Sprintf("%s#loop%d:visits_all", c.key, k), Kind: "loop", Goal: "false", NDecl: -1,
						Pos: c.pos(pos), Text: fmt.Sprintf("loop %d is left early (break or return inside its body): not every element is considered", k), Fn: c})
				}
			}
		}
	}
}
