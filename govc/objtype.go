package main

import "go/types"

// fieldOwner returns the type whose field arrays hold the fields of the object denoted by v:
// the pointee struct for pointers, the named type itself for named scalar types that carry
// ghost fields (interfaces such as clock.Clock).
func fieldOwner(v Val) (types.Type, bool) {
	if pt, ok := v.T.Underlying().(*types.Pointer); ok {
		return pt.Elem(), true
	}
	if _, ok := v.T.(*types.Named); ok && v.IsScalar() {
		return v.T, true
	}
	return nil, false
}
