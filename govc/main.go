package main

import (
	"fmt"
	"golang.org/x/tools/go/packages"
	"golang.org/x/tools/go/ssa"
	"golang.org/x/tools/go/ssa/ssautil"
)

func main() {
	cfg := &packages.Config{Mode: packages.LoadAllSyntax, Dir: "/repo"}
	pkgs, err := packages.Load(cfg, "./utils/stringset")
	fmt.Println(len(pkgs), err)
	prog, spkgs := ssautil.AllPackages(pkgs, ssa.GlobalDebug)
	prog.Build()
	fmt.Println(spkgs[0].Func("FromSlice") != nil)
}
