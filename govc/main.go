package main

import (
	"flag"
	"fmt"
	"os"
	"sort"
	"strings"
	"time"
)

func main() {
	if len(os.Args) < 2 {
		fmt.Fprintln(os.Stderr, "usage: govc check|verify ...")
		os.Exit(2)
	}
	switch os.Args[1] {
	case "verify":
		cmdVerify(os.Args[2:])
	case "check":
		cmdCheck(os.Args[2:])
	default:
		fmt.Fprintln(os.Stderr, "unknown command", os.Args[1])
		os.Exit(2)
	}
}

// cmdVerify: development driver — verify the named functions and print every obligation.
func cmdVerify(args []string) {
	fs := flag.NewFlagSet("verify", flag.ExitOnError)
	repo := fs.String("repo", "/repo", "repository root")
	externs := fs.String("externs", "/verif/contracts/externs", "extern spec directory")
	pkgsFlag := fs.String("pkgs", "", "comma separated package patterns")
	fnsFlag := fs.String("fns", "", "comma separated contract keys (default: all contracts in the packages)")
	scratch := fs.String("scratch", "", "scratch directory")
	modfile := fs.String("modfile", "", "alternate go.mod")
	timeout := fs.Int("timeout", 10, "per query timeout (s)")
	verbose := fs.Bool("v", false, "verbose")
	dump := fs.String("dump", "", "obligation name substring whose SMT query is printed")
	fs.Parse(args)
	t0 := time.Now()
	eng, err := loadEngine(*repo, strings.Split(*pkgsFlag, ","), *externs, *modfile)
	if err != nil {
		fmt.Fprintln(os.Stderr, "load:", err)
		os.Exit(2)
	}
	fmt.Printf("loaded in %.1fs, %d contracts\n", time.Since(t0).Seconds(), len(eng.cs.Funcs))
	var keys []string
	if *fnsFlag != "" {
		keys = strings.Split(*fnsFlag, ",")
	} else {
		for k, fc := range eng.cs.Funcs {
			if !fc.Extern && !fc.Trusted {
				keys = append(keys, k)
			}
		}
	}
	sort.Strings(keys)
	if *scratch == "" {
		d, _ := os.MkdirTemp("", "govc")
		*scratch = d
		defer os.RemoveAll(d)
	}
	cfg := &SolverCfg{quickTimeout: time.Duration(*timeout) * time.Second, scratch: *scratch, parallel: 16}
	var all []*Oblig
	var ctxs []*FnCtx
	for _, k := range keys {
		fc := eng.cs.Funcs[k]
		if fc == nil {
			fmt.Println("NO CONTRACT", k)
			continue
		}
		fn := eng.findFunction(fc)
		if fn == nil {
			fmt.Println("NO FUNCTION", k)
			continue
		}
		c := newFnCtx(eng, fn, fc, k)
		c.verify()
		ctxs = append(ctxs, c)
		for _, e := range c.errs {
			fmt.Println("ERROR", k, e)
		}
		all = append(all, c.obligs...)
		all = append(all, c.covers...)
	}
	dischargeAll(all, cfg)
	bad := 0
	ndump := 0
	for _, o := range all {
		ok := o.Status == "unsat"
		if o.Kind == "cover" {
			ok = o.Status != "unsat"
		}
		if !ok {
			bad++
		}
		if *verbose || !ok {
			fmt.Printf("%-7s %-6s %5dms %s  [%s:%d] %s\n", o.Status, o.Solver, o.Millis, o.Name, shortFile(o.Pos.Filename), o.Pos.Line, o.Text)
			if !ok && o.Kind != "cover" && o.Status == "sat" {
				fmt.Println("   model:", modelLine(o))
			}
		}
		if *dump != "" && strings.Contains(o.Name, *dump) {
			if strings.HasPrefix(*dump, "@") || os.Getenv("GOVC_DUMPDIR") != "" {
				dir := os.Getenv("GOVC_DUMPDIR")
				os.MkdirAll(dir, 0o755)
				ndump++
				fn := fmt.Sprintf("%s/d%02d_%s.smt2", dir, ndump, o.Status)
				os.WriteFile(fn, []byte(o.query(true)), 0o644)
				fmt.Println("dumped", o.Name, "->", fn)
			} else {
				fmt.Println(o.query(true))
			}
		}
	}
	for _, c := range ctxs {
		var ns []string
		for n := range c.notes {
			ns = append(ns, n)
		}
		for n := range c.abstracted {
			ns = append(ns, "abstracted call: "+n)
		}
		sort.Strings(ns)
		if *verbose {
			for _, n := range ns {
				fmt.Println("NOTE", c.key, n)
			}
		}
	}
	fmt.Printf("%d obligations, %d not ok, %.1fs\n", len(all), bad, time.Since(t0).Seconds())
	if bad > 0 {
		os.Exit(1)
	}
}

func shortFile(f string) string {
	return strings.TrimPrefix(f, "/repo/")
}

func modelLine(o *Oblig) string {
	lines := strings.Split(o.Model, "\n")
	if len(lines) > 1 {
		vals := strings.Join(lines[1:], " ")
		vals = strings.Join(strings.Fields(vals), " ")
		return truncate(vals, 600)
	}
	return ""
}

