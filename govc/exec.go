package main

// Forward symbolic execution of go/ssa functions; generation of obligations.

import (
	"fmt"
	"go/constant"
	"go/token"
	"go/types"
	"sort"
	"strings"
	"time"

	"golang.org/x/tools/go/ssa"
)

type Oblig struct {
	Name   string // stable obligation name
	Kind   string
	Goal   string
	PC     []string
	NDecl  int
	NFacts int
	Pos    token.Position
	Text   string // human text of the clause
	Fn     *FnCtx
	// results
	Status  string // "unsat" (discharged), "sat", "unknown", "timeout", "error"
	Solver  string
	Millis  int64
	Model   string
	SMTFile string
	Vars    []string // terms to evaluate in a model
	Budget  time.Duration // per-obligation time budget override (0 = default)
	Cross    []string // thorough tier: answers of the other solvers ("z3:unsat")
	Disagree bool     // thorough tier: a definite answer of another solver contradicts Status
}

type Loop struct {
	Header *ssa.BasicBlock
	Blocks map[*ssa.BasicBlock]bool
	Ord    int
	Latch  map[*ssa.BasicBlock]bool
}

type Frame struct {
	id       int
	fn       *ssa.Function
	onReturn func(st *State, results []Val, ret *ssa.Return)
	inlined  bool
	loops    map[*ssa.BasicBlock]*Loop
	contract *FuncContract
}

type FnCtx struct {
	eng         *Engine
	fn          *ssa.Function
	contract    *FuncContract
	key         string // full contract key
	decls       []string
	declared    map[string]bool
	globalFacts []string
	nfresh      int
	obligs      []*Oblig
	covers      []*Oblig
	paths       int
	abstracted  map[string]bool
	notes       map[string]bool
	touched     map[string]bool
	nframes     int
	counters    map[string]int
	strConsts   map[string]string
	errs        []string
	pathCap     int
	callOrd     map[ssa.Instruction]int
	panicOrd    map[ssa.Instruction]string
	entryParams map[string]Val
	usedSpecFns map[string]bool
	inlineDepth int
	closures      map[string]*ssa.MakeClosure
	inlined       map[string]bool
	usedContracts map[string]*FuncContract
	callFVs       map[string]Val // captured-variable bindings for the next callByContract (closure call)
	callOuter     map[string]Val // enclosing function's parameters for the next callByContract (call of a func-typed parameter)
	usedLockInvs  map[string]bool
	typeIDs       map[string]bool
	axiomFacts    []string
	sentinels     map[*ssa.Global]string
	usedSums      map[string]bool
	knownArrays   map[string]bool
	boxed         map[string]Val // composite values boxed into interfaces, by interface term
	revOf         map[string]string // sort.Reverse(x): the reversed view's interface term -> x's term
	assertsSeen   map[string]bool
	stackRefs     map[string]bool // refs of non-escaping local variables
	siteOrd       map[ssa.Instruction]int
}

func newFnCtx(eng *Engine, fn *ssa.Function, fc *FuncContract, key string) *FnCtx {
	return &FnCtx{eng: eng, fn: fn, contract: fc, key: key,
		declared: map[string]bool{}, abstracted: map[string]bool{}, notes: map[string]bool{}, touched: map[string]bool{},
		counters: map[string]int{}, strConsts: map[string]string{}, pathCap: 4096,
		callOrd: map[ssa.Instruction]int{}, panicOrd: map[ssa.Instruction]string{}, usedSpecFns: map[string]bool{},
		closures: map[string]*ssa.MakeClosure{}, inlined: map[string]bool{}, usedContracts: map[string]*FuncContract{},
		usedLockInvs: map[string]bool{}, typeIDs: map[string]bool{}, sentinels: map[*ssa.Global]string{}, usedSums: map[string]bool{}, assertsSeen: map[string]bool{}}
}

func (c *FnCtx) note(s string) { c.notes[s] = true }

func (c *FnCtx) pos(p token.Pos) token.Position {
	return c.eng.fset.Position(p)
}

// addOblig records a proof obligation: under the path condition of st, goal holds.
func (c *FnCtx) addOblig(st *State, name, kind, goal, text string, pos token.Pos) *Oblig {
	o := &Oblig{Name: c.key + "#" + name, Kind: kind, Goal: goal, PC: append([]string(nil), st.pc...),
		NDecl: -1, Pos: c.pos(pos), Text: text, Fn: c}
	c.obligs = append(c.obligs, o)
	return o
}

// ---- loops -----------------------------------------------------------------

func findLoops(fn *ssa.Function) map[*ssa.BasicBlock]*Loop {
	loops := map[*ssa.BasicBlock]*Loop{}
	for _, b := range fn.Blocks {
		for _, s := range b.Succs {
			if s.Dominates(b) {
				l := loops[s]
				if l == nil {
					l = &Loop{Header: s, Blocks: map[*ssa.BasicBlock]bool{s: true}, Latch: map[*ssa.BasicBlock]bool{}}
					loops[s] = l
				}
				l.Latch[b] = true
				// natural loop: all nodes that reach b without passing through s
				var stack []*ssa.BasicBlock
				if !l.Blocks[b] {
					l.Blocks[b] = true
					stack = append(stack, b)
				}
				for len(stack) > 0 {
					x := stack[len(stack)-1]
					stack = stack[:len(stack)-1]
					for _, p := range x.Preds {
						if !l.Blocks[p] {
							l.Blocks[p] = true
							stack = append(stack, p)
						}
					}
				}
			}
		}
	}
	var hs []*ssa.BasicBlock
	for h := range loops {
		hs = append(hs, h)
	}
	sort.Slice(hs, func(i, j int) bool { return hs[i].Index < hs[j].Index })
	for i, h := range hs {
		loops[h].Ord = i
	}
	return loops
}

// ---- function verification ----------------------------------------------------

func (c *FnCtx) newFrame(fn *ssa.Function, fc *FuncContract) *Frame {
	c.nframes++
	return &Frame{id: c.nframes, fn: fn, loops: findLoops(fn), contract: fc}
}

// verify generates the obligations of the function under its contract.
func (c *FnCtx) verify() {
	fn := c.fn
	fc := c.contract
	if fn.Blocks == nil {
		c.errs = append(c.errs, "function has no body")
		return
	}
	st := &State{env: map[ssa.Value]Val{}, heap: map[string]string{}, iters: map[ssa.Value]*Iter{}, held: map[string]bool{}}
	st.alloc = sym("alloc@0")
	c.declare(st.alloc, "(Array Int Bool)")
	st.assume(not(sel(st.alloc, "0")))
	// parameters
	c.entryParams = map[string]Val{}
	for _, p := range fn.Params {
		v := c.freshVal(st, p.Type(), "p."+p.Name())
		c.assumeAllocated(st, v)
		st.env[p] = v
		c.entryParams[p.Name()] = v
	}
	for _, fv := range fn.FreeVars {
		v := c.freshVal(st, fv.Type(), "fv."+fv.Name())
		c.assumeAllocated(st, v)
		st.env[fv] = v
	}
	st.oldHeap = copyHeap(st.heap)
	st.oldAlloc = st.alloc
	frame := c.newFrame(fn, fc)
	// requires
	env := c.entryEnv(frame, st)
	for _, h := range fc.Held {
		c.enterHeld(st, env, h)
	}
	for _, r := range fc.Requires {
		t, err := c.evalBool(env, r.Expr)
		if err != nil {
			c.errs = append(c.errs, fmt.Sprintf("%s:%d: requires %s: %v", r.File, r.Line, r.Label, err))
			continue
		}
		st.assume(t)
	}
	// a closure used as a callback keeps its invariants: assumed here, obligations at every return
	for _, r := range fc.CbInvs {
		t, err := c.evalBool(env, r.Expr)
		if err != nil {
			c.errs = append(c.errs, fmt.Sprintf("%s:%d: invariant %s: %v", r.File, r.Line, r.Label, err))
			continue
		}
		st.assume(t)
	}
	if len(fc.Held) > 0 {
		st.oldHeap = copyHeap(st.heap)
	}
	c.checkClosedType(st)
	c.checkVisitsAll(frame)
	// cover: precondition satisfiable
	cov := &Oblig{Name: c.key + "#cover:entry", Kind: "cover", Goal: "false", PC: append([]string(nil), st.pc...), Fn: c, Pos: c.pos(fn.Pos())}
	c.covers = append(c.covers, cov)
	frame.onReturn = func(st *State, results []Val, ret *ssa.Return) {
		c.checkReturn(frame, st, results, ret)
	}
	c.execBlock(frame, fn.Blocks[0], nil, st)
}

// entryEnv builds the spec environment at function entry.
func (c *FnCtx) entryEnv(frame *Frame, st *State) *SpecEnv {
	env := &SpecEnv{c: c, st: st, heap: st.heap, vars: map[string]Val{}, pkg: frame.fn.Pkg.Pkg, frame: frame}
	names := frame.contract.Names
	for i, p := range frame.fn.Params {
		n := p.Name()
		if i < len(names) {
			n = names[i]
		}
		env.vars[n] = st.env[p]
	}
	return env
}

func (c *FnCtx) checkReturn(frame *Frame, st *State, results []Val, ret *ssa.Return) {
	fc := frame.contract
	env := c.returnEnv(frame, st, results, ret.Block())
	cov := &Oblig{Name: fmt.Sprintf("%s#cover:return@b%d", c.key, ret.Block().Index), Kind: "cover", Goal: "false", PC: append([]string(nil), st.pc...), Fn: c, Pos: c.pos(ret.Pos())}
	c.covers = append(c.covers, cov)
	if fc.RulesOnly {
		// postconditions and frame are assumed for callers; only the rules inside the body are checked
		return
	}
	for _, e := range fc.Ensures {
		t, err := c.evalBool(env, e.Expr)
		if err != nil {
			c.errs = append(c.errs, fmt.Sprintf("%s:%d: ensures %s: %v", e.File, e.Line, e.Label, err))
			continue
		}
		o := c.addOblig(st, "ensures:"+e.Label, "ensures", t, e.Text, ret.Pos())
		o.Vars = c.modelVars(st)
	}
	for _, e := range fc.CbInvs {
		t, err := c.evalBool(env, e.Expr)
		if err != nil {
			c.errs = append(c.errs, fmt.Sprintf("%s:%d: invariant %s: %v", e.File, e.Line, e.Label, err))
			continue
		}
		c.addOblig(st, "invariant:"+e.Label, "ensures", t, e.Text, ret.Pos())
	}
	for _, h := range fc.Held {
		c.exitHeld(st, env, h, ret.Pos())
	}
	c.checkFrame(frame, st, env, ret.Pos())
	for k := range st.held {
		if st.held[k] {
			c.note("returns while holding " + k)
		}
	}
}

// returnEnv builds the spec environment at a return.
func (c *FnCtx) returnEnv(frame *Frame, st *State, results []Val, at *ssa.BasicBlock) *SpecEnv {
	env := &SpecEnv{c: c, st: st, heap: st.heap, vars: map[string]Val{}, pkg: frame.fn.Pkg.Pkg, frame: frame, at: at}
	names := frame.contract.Names
	for i, p := range frame.fn.Params {
		n := p.Name()
		if i < len(names) {
			n = names[i]
		}
		env.vars[n] = st.env[p]
	}
	sig := frame.fn.Signature
	for i, r := range results {
		env.vars[fmt.Sprintf("result%d", i)] = r
		if n := sig.Results().At(i).Name(); n != "" && n != "_" {
			env.vars[n] = r
		}
	}
	if len(results) == 1 {
		env.vars["result"] = results[0]
	}
	old := &SpecEnv{c: c, st: st, heap: st.oldHeap, vars: map[string]Val{}, pkg: env.pkg, frame: frame, isOld: true, alloc: st.oldAlloc}
	for i, p := range frame.fn.Params {
		n := p.Name()
		if i < len(names) {
			n = names[i]
		}
		old.vars[n] = st.env[p]
	}
	env.old = old
	return env
}

// checkLoopCount reports contracts that mention loops the function does not have.
func (c *FnCtx) checkLoopCount() {
	n := len(findLoops(c.fn))
	for k := range c.contract.Invs {
		if k >= n {
			c.errs = append(c.errs, fmt.Sprintf("contract mentions loop %d but the function has %d loops", k, n))
		}
	}
}

// modelVars lists the entry parameter leaves (for counterexample extraction).
func (c *FnCtx) modelVars(st *State) []string {
	var out []string
	var names []string
	for n := range c.entryParams {
		names = append(names, n)
	}
	sort.Strings(names)
	for _, n := range names {
		walkLeaves(c.entryParams[n], n, func(path string, leaf Val) {
			out = append(out, path+"="+leaf.S)
			if leaf.K == KString {
				out = append(out, "strlen("+path+")=(strlen "+leaf.S+")")
			}
			if _, ok := leaf.T.Underlying().(*types.Map); ok {
				out = append(out, "len("+path+")="+sel(c.heapGet(st.oldHeap, arrName("L", "", "", "Int")), leaf.S))
			}
			// one level of scalar fields of pointed-to structs (entry / post-lock state)
			if pt, ok := leaf.T.Underlying().(*types.Pointer); ok && leaf.K == KRef && leaf.A == nil {
				if stt, ok := pt.Elem().Underlying().(*types.Struct); ok && kindOf(pt.Elem()) == KStruct {
					for i := 0; i < stt.NumFields() && i < 24; i++ {
						f := stt.Field(i)
						for _, lf := range leavesOf(f.Type()) {
							if kindOf(lf.T) != KInt && kindOf(lf.T) != KBool {
								continue
							}
							fp := joinPath(f.Name(), lf.Path)
							if strings.Count(fp, ".") > 1 {
								continue
							}
							arr := c.heapGet(st.oldHeap, arrName("F", typeName(pt.Elem()), fp, lf.Sort))
							out = append(out, path+"."+fp+"="+sel(arr, leaf.S))
						}
					}
				}
			}
		})
	}
	return out
}

// ---- block execution -----------------------------------------------------------

func (c *FnCtx) execBlock(frame *Frame, b *ssa.BasicBlock, from *ssa.BasicBlock, st *State) {
	if len(c.errs) > 20 {
		return
	}
	if l, ok := frame.loops[b]; ok {
		if from != nil && l.Latch[from] && l.Blocks[from] {
			c.loopBack(frame, l, from, st)
			return
		}
		c.loopEnter(frame, l, from, st)
		return
	}
	// phis
	c.evalPhis(b, from, st)
	c.execInstrs(frame, b, firstNonPhi(b), st)
}

func firstNonPhi(b *ssa.BasicBlock) int {
	for i, in := range b.Instrs {
		if _, ok := in.(*ssa.Phi); !ok {
			return i
		}
	}
	return len(b.Instrs)
}

func (c *FnCtx) evalPhis(b *ssa.BasicBlock, from *ssa.BasicBlock, st *State) {
	if from == nil {
		return
	}
	idx := -1
	for i, p := range b.Preds {
		if p == from {
			idx = i
			break
		}
	}
	vals := map[*ssa.Phi]Val{}
	for _, in := range b.Instrs {
		phi, ok := in.(*ssa.Phi)
		if !ok {
			break
		}
		vals[phi] = c.val(st, phi.Edges[idx])
	}
	for p, v := range vals {
		st.env[p] = v
	}
}

func (c *FnCtx) execInstrs(frame *Frame, b *ssa.BasicBlock, i int, st *State) {
	for ; i < len(b.Instrs); i++ {
		in := b.Instrs[i]
		switch x := in.(type) {
		case *ssa.If:
			cond := c.val(st, x.Cond).S
			c.paths++
			if c.paths > c.pathCap {
				c.errs = append(c.errs, "path cap exceeded")
				return
			}
			if cond != "false" {
				s1 := st.clone()
				s1.assume(cond)
				c.execBlock(frame, b.Succs[0], b, s1)
			}
			if cond != "true" {
				st.assume(not(cond))
				c.execBlock(frame, b.Succs[1], b, st)
			}
			return
		case *ssa.Jump:
			c.execBlock(frame, b.Succs[0], b, st)
			return
		case *ssa.Return:
			var rs []Val
			for _, r := range x.Results {
				rs = append(rs, c.val(st, r))
			}
			if !frame.inlined && !st.ghostDone {
				c.applyGhostUpdates(frame, st, rs, b)
				st.ghostDone = true
			}
			frame.onReturn(st, rs, x)
			return
		case *ssa.Panic:
			if c.contract.NoPanic && !frame.inlined || c.contract.NoPanic {
				c.addOblig(st, c.panicName(x, "explicit"), "nopanic", "false", "explicit panic unreachable", x.Pos())
			}
			return
		case *ssa.RunDefers:
			if !frame.inlined && !st.ghostDone {
				// ghost assignments happen before the deferred calls (e.g. Unlock) run
				var rs []Val
				known := true
				if ret, ok := b.Instrs[len(b.Instrs)-1].(*ssa.Return); ok {
					for _, r := range ret.Results {
						if _, isConst := r.(*ssa.Const); !isConst {
							if _, have := st.env[r]; !have {
								known = false
							}
						}
						if known {
							rs = append(rs, c.val(st, r))
						}
					}
				}
				if known {
					c.applyGhostUpdates(frame, st, rs, b)
					st.ghostDone = true
				}
			}
			c.runDefers(frame, st, func(st2 *State) {
				c.execInstrs(frame, b, i+1, st2)
			})
			return
		case *ssa.Call:
			done := false
			c.doCall(frame, st, x, &x.Call, func(st2 *State, res Val) {
				st2.env[x] = res
				c.execInstrs(frame, b, i+1, st2)
			}, &done)
			return
		default:
			cont, ok := c.step(frame, st, in)
			if !ok {
				return // path ended (e.g. provably panics / assumption false)
			}
			if cont != nil {
				// forked execution: cont invokes continuation for each successor state
				cont(func(st2 *State) { c.execInstrs(frame, b, i+1, st2) })
				return
			}
		}
	}
}

func (c *FnCtx) panicName(in ssa.Instruction, kind string) string {
	if n, ok := c.panicOrd[in]; ok {
		return n
	}
	k := "panic:" + kind
	c.counters[k]++
	n := fmt.Sprintf("%s@%d", k, c.counters[k]-1)
	c.panicOrd[in] = n
	return n
}

// safety: under nopanic emit an obligation, otherwise assume the condition.
func (c *FnCtx) safety(st *State, in ssa.Instruction, kind, cond, text string) {
	if cond == "true" {
		return
	}
	if c.contract.NoPanic {
		c.addOblig(st, c.panicName(in, kind), "nopanic", cond, text, in.Pos())
	}
	st.assume(cond)
}

// ---- values ----------------------------------------------------------------------

func (c *FnCtx) val(st *State, v ssa.Value) Val {
	if x, ok := st.env[v]; ok {
		return x
	}
	switch x := v.(type) {
	case *ssa.Const:
		return c.constVal(st, x)
	case *ssa.Global:
		t := x.Type().(*types.Pointer).Elem()
		name := x.Pkg.Pkg.Path() + "." + x.Name()
		a := &Addr{Space: "G", Key: name, T: t}
		r := sym("gaddr." + name)
		c.declare(r, "Int")
		return Val{T: x.Type(), K: KRef, S: r, A: a}
	case *ssa.Function:
		r := sym("fn." + x.String())
		c.declare(r, "Int")
		c.addGlobalFact("(> " + r + " 0)")
		return scalar(x.Type(), r)
	case *ssa.Builtin:
		return scalar(x.Type(), "0")
	}
	// undefined (e.g. value from an unexecuted path); havoc
	c.note(fmt.Sprintf("value %s used before definition (havoc)", v.Name()))
	nv := c.freshVal(st, v.Type(), "undef."+v.Name())
	st.env[v] = nv
	return nv
}

func (c *FnCtx) addGlobalFact(f string) {
	for _, g := range c.globalFacts {
		if g == f {
			return
		}
	}
	c.globalFacts = append(c.globalFacts, f)
}

func (c *FnCtx) strConst(s string) string {
	if s == "" {
		return "str_empty"
	}
	if n, ok := c.strConsts[s]; ok {
		return n
	}
	n := sym(fmt.Sprintf("str%d:%s", len(c.strConsts), truncate(s, 24)))
	c.declare(n, "Int")
	c.addGlobalFact(fmt.Sprintf("(= (strlen %s) %d)", n, len(s)))
	for _, o := range c.strConsts {
		c.addGlobalFact(fmt.Sprintf("(not (= %s %s))", n, o))
	}
	c.addGlobalFact(fmt.Sprintf("(not (= %s str_empty))", n))
	c.strConsts[s] = n
	return n
}

func truncate(s string, n int) string {
	if len(s) > n {
		return s[:n]
	}
	return s
}

func (c *FnCtx) constVal(st *State, x *ssa.Const) Val {
	t := x.Type()
	if x.Value == nil {
		// zero value / nil
		return zeroVal(t)
	}
	switch kindOf(t) {
	case KBool:
		if constant.BoolVal(x.Value) {
			return scalar(t, "true")
		}
		return scalar(t, "false")
	case KInt:
		s := x.Value.ExactString()
		if strings.HasPrefix(s, "-") {
			s = "(- " + s[1:] + ")"
		}
		return scalar(t, s)
	case KString:
		return scalar(t, c.strConst(constant.StringVal(x.Value)))
	case KFloat:
		n := sym("float:" + x.Value.ExactString())
		c.declare(n, "Int")
		return scalar(t, n)
	}
	c.note("unsupported constant " + x.String())
	return c.freshVal(st, t, "const")
}

// ---- defers -------------------------------------------------------------------------

func (c *FnCtx) runDefers(frame *Frame, st *State, k func(st *State)) {
	// pop the most recent deferred call of this frame
	for i := len(st.defers) - 1; i >= 0; i-- {
		d := st.defers[i]
		if d.frame != frame.id {
			continue
		}
		st.defers = append(st.defers[:i:i], st.defers[i+1:]...)
		done := false
		c.doCall(frame, st, d.call, &d.call.Call, func(st2 *State, res Val) {
			c.runDefers(frame, st2, k)
		}, &done)
		return
	}
	k(st)
}
