package main

// Calls: builtins, contracted callees (modular), externs, locks, inlining, unknown callees.

import (
	"fmt"
	"go/token"
	"go/types"
	"strings"

	"golang.org/x/tools/go/ssa"
)

// no-op callee prefixes (logging, metrics, tracing).
var noopPrefixes = []string{
	"github.com/uber/kraken/utils/log.",
	"go.uber.org/zap.",
	"(*go.uber.org/zap.",
	"github.com/uber-go/tally.",
	"(github.com/uber-go/tally.",
	"go.opentelemetry.io/",
	"(go.opentelemetry.io/",
	"log.Print",
	"fmt.Print",
}

func calleeName(call *ssa.CallCommon) string {
	if call.IsInvoke() {
		return "invoke " + typeName(call.Value.Type()) + "." + call.Method.Name()
	}
	if f := call.StaticCallee(); f != nil {
		return f.String()
	}
	if b, ok := call.Value.(*ssa.Builtin); ok {
		return "builtin " + b.Name()
	}
	return "dynamic " + call.Value.Name()
}

// contractKeyForFunc computes the contract key of a static function: "pkgpath.Recv.Name" or "pkgpath.Name".
func contractKeyForFunc(f *ssa.Function) string {
	if f == nil {
		return ""
	}
	pkg := ""
	if f.Pkg != nil {
		pkg = f.Pkg.Pkg.Path()
	} else if f.Object() != nil && f.Object().Pkg() != nil {
		pkg = f.Object().Pkg().Path()
	}
	if f.Signature.Recv() != nil {
		rt := f.Signature.Recv().Type()
		if p, ok := rt.(*types.Pointer); ok {
			rt = p.Elem()
		}
		if n, ok := rt.(*types.Named); ok {
			if n.Obj().Pkg() != nil {
				pkg = n.Obj().Pkg().Path()
			}
			return pkg + "." + n.Obj().Name() + "." + f.Name()
		}
		return pkg + "." + shortTypeName(rt) + "." + f.Name()
	}
	if f.Parent() != nil {
		// anonymous function: Parent$N
		return contractKeyForFunc(f.Parent()) + "$" + strings.TrimPrefix(f.Name(), f.Parent().Name()+"$")
	}
	return pkg + "." + f.Name()
}

func (c *FnCtx) doCall(frame *Frame, st *State, in ssa.Instruction, call *ssa.CallCommon, k func(st *State, res Val), done *bool) {
	// argument values
	var args []Val
	if call.IsInvoke() {
		args = append(args, c.val(st, call.Value))
	}
	for _, a := range call.Args {
		args = append(args, c.val(st, a))
	}
	var rt types.Type = call.Signature().Results()
	if call.Signature().Results().Len() == 1 {
		rt = call.Signature().Results().At(0).Type()
	}
	name := calleeName(call)

	if b, ok := call.Value.(*ssa.Builtin); ok {
		if b.Name() == "delete" && !frame.inlined && frame.contract != nil && len(frame.contract.Asserts) > 0 {
			c.checkCallSiteAsserts(frame, st, in, "builtin.delete")
		}
		c.builtin(frame, st, in, b, call, args, rt, k)
		return
	}
	for _, p := range noopPrefixes {
		if strings.HasPrefix(name, p) || strings.HasPrefix(strings.TrimPrefix(name, "invoke "), strings.Trim(p, "(*")) {
			if strings.Contains(name, "Fatal") || strings.Contains(name, "Panic") {
				if c.contract.NoPanic {
					c.addOblig(st, c.panicName(in, "fatal"), "nopanic", "false", "log.Fatal/Panic unreachable", in.Pos())
				}
				return
			}
			// logging / metrics: arbitrary results; they allocate nothing the program can reach
			// except those results
			k(st, c.contractResult(st, rt, "noop"))
			return
		}
	}
	var key string
	var callee *ssa.Function
	if call.IsInvoke() {
		recv := types.Unalias(call.Value.Type())
		if n, ok := recv.(*types.Named); ok && n.Obj().Pkg() != nil {
			key = n.Obj().Pkg().Path() + "." + n.Obj().Name() + "." + call.Method.Name()
		} else if n, ok := recv.(*types.Named); ok {
			key = n.Obj().Name() + "." + call.Method.Name() // e.g. error.Error
		} else {
			key = typeName(recv) + "." + call.Method.Name()
		}
	} else if callee = call.StaticCallee(); callee != nil {
		key = contractKeyForFunc(callee)
		if callee.Origin() != nil {
			key = contractKeyForFunc(callee.Origin())
		}
	} else {
		// dynamic call of a func value: closure created in this function?
		fv := c.val(st, call.Value)
		if mc, ok := c.closures[fv.S]; ok {
			callee = mc.Fn.(*ssa.Function)
			key = contractKeyForFunc(callee)
			// bind free variables
			var fvs []Val
			for _, b := range mc.Bindings {
				fvs = append(fvs, c.val(st, b))
			}
			if fc := c.eng.cs.Funcs[key]; fc != nil {
				c.callFVs = c.closureBindings(st, mc)
				c.callByContract(frame, st, in, callee, fc, key, args, rt, k)
				return
			}
			if c.canInline(callee) {
				c.inlineCall(frame, st, in, callee, args, fvs, k)
				return
			}
		}
		// call through a func-typed struct field (s.strategy(x)): nameable in call-site rules as
		// "field.<name>"
		if u, ok := call.Value.(*ssa.UnOp); ok && key == "" {
			if fa, ok := u.X.(*ssa.FieldAddr); ok {
				if pt, ok := fa.X.Type().Underlying().(*types.Pointer); ok {
					if stt, ok := pt.Elem().Underlying().(*types.Struct); ok {
						key = "field." + stt.Field(fa.Field).Name()
						if n, ok := types.Unalias(pt.Elem()).(*types.Named); ok && n.Obj().Pkg() != nil {
							// "<pkg>.field.<name>": an assumed contract may be given for the call
							key = n.Obj().Pkg().Path() + "." + key
						}
					}
				}
			}
		}
		// func-typed parameter with a param contract
		if p, ok := call.Value.(*ssa.Parameter); ok {
			pk := c.key + "@param:" + p.Name()
			if fc := c.eng.cs.Funcs[pk]; fc != nil {
				// the contract of a func-typed parameter may also name the enclosing function's
				// parameters (ghost bookkeeping on objects both sides can see)
				c.callOuter = map[string]Val{}
				names := frame.contract.Names
				for i, op := range frame.fn.Params {
					n := op.Name()
					if i < len(names) {
						n = names[i]
					}
					c.callOuter[n] = st.env[op]
				}
				c.callByContract(frame, st, in, nil, fc, pk, args, rt, k)
				return
			}
		}
	}
	// calls the function under verification must never make
	if c.contract != nil && key != "" {
		for _, fb := range c.contract.Forbids {
			if fb == key || fb == shortKey(key) || strings.HasSuffix(shortKey(key), "."+fb) {
				c.addOblig(st, "forbids:"+fb, "frame", "false", "the contract forbids a call of "+fb+" here", in.Pos())
			}
		}
	}
	// file-system frame of the function under verification
	if c.contract != nil && c.contract.HasFSEffects && fsMutators[key] {
		listed := false
		for _, a := range c.contract.FSEffects {
			if a == key {
				listed = true
			}
		}
		if !listed {
			c.addOblig(st, "fs_effects:"+key, "frame", "false", "the function's file-system frame (fs_effects "+strings.Join(c.contract.FSEffects, ", ")+") does not allow a call of "+key, in.Pos())
		}
	}
	if c.contract != nil && c.contract.HasFSAccess && (fsMutators[key] || fsReaders[key]) {
		listed := false
		for _, a := range c.contract.FSAccess {
			if a == key {
				listed = true
			}
		}
		if !listed {
			c.addOblig(st, "fs_access:"+key, "frame", "false", "the function's file-system frame (fs_access "+strings.Join(c.contract.FSAccess, ", ")+") does not allow a call of "+key, in.Pos())
		}
	}
	// call-site rules of the function under verification
	if !frame.inlined && frame.contract != nil && len(frame.contract.Asserts) > 0 && key != "" {
		c.checkCallSiteAsserts(frame, st, in, key)
		if c.hasAssumeAfter(frame) {
			k0 := k
			k = func(st *State, res Val) {
				c.assumeAfterCall(frame, st, in, key, res)
				k0(st, res)
			}
		}
	}
	// special handlers
	if c.special(frame, st, in, call, key, args, rt, k) {
		return
	}
	if fc := c.eng.cs.Funcs[key]; fc != nil {
		if fc.Inline && callee != nil && callee.Blocks != nil {
			c.inlineCall(frame, st, in, callee, args, nil, k)
			return
		}
		c.callByContract(frame, st, in, callee, fc, key, args, rt, k)
		return
	}
	if callee != nil && c.canInline(callee) {
		var fvs []Val
		if mc, ok := call.Value.(*ssa.MakeClosure); ok {
			// a function literal called (or deferred) where it is written: its captured variables
			// are the enclosing function's cells
			for _, b := range mc.Bindings {
				fvs = append(fvs, c.val(st, b))
			}
		}
		c.inlineCall(frame, st, in, callee, args, fvs, k)
		return
	}
	// unknown callee
	c.abstracted[name] = true
	if !frame.inlined && frame.contract != nil && len(frame.contract.UnknownMods) > 0 {
		// the contract names state that calls to unknown code (function values, uncontracted
		// callees) may change: havoc it after each such call
		env := c.entryEnv(frame, st)
		env.at = in.Block()
		for _, m := range frame.contract.UnknownMods {
			if m.Expr != nil {
				if _, err := c.eval(env, m.Expr); err != nil {
					continue // names a local that does not exist yet at this call
				}
			}
			c.havocModItem(st, env, m, nil)
			env.heap = st.heap
		}
	}
	res := c.havocResult(st, rt, "call."+shortCallee(name))
	k(st, res)
}

func shortCallee(n string) string {
	if i := strings.LastIndex(n, "/"); i >= 0 {
		n = n[i+1:]
	}
	return n
}

func (c *FnCtx) havocResult(st *State, rt types.Type, prefix string) Val {
	if t, ok := rt.(*types.Tuple); ok && t.Len() == 0 {
		return Val{T: rt, K: KTuple}
	}
	v := c.freshVal(st, rt, prefix)
	c.assumeAllocatedOrFresh(st, v)
	return v
}

// contractResult: result of a callee with a contract. Contracted callees allocate nothing
// visible to the caller except what they return: the allocated set afterwards is exactly the
// old one plus the references in the result.
func (c *FnCtx) contractResult(st *State, rt types.Type, prefix string) Val {
	if t, ok := rt.(*types.Tuple); ok && t.Len() == 0 {
		return Val{T: rt, K: KTuple}
	}
	v := c.freshVal(st, rt, prefix)
	cur := st.alloc
	prev := st.alloc
	changed := false
	walkLeaves(v, "", func(path string, leaf Val) {
		if leaf.K == KRef || strings.HasSuffix(path, "#base") {
			cur = ite(eq(leaf.S, "0"), cur, sto(cur, leaf.S, "true"))
			changed = true
			if leaf.K != KRef {
				// a backing array allocated by the callee is not an object of any struct type
				st.assume(or(eq(leaf.S, "0"), sel(prev, leaf.S), eq("(rtype "+leaf.S+")", "0")))
			}
			if leaf.K == KRef {
				if pt, ok := leaf.T.Underlying().(*types.Pointer); ok {
					if tid := c.refTypeID(pt.Elem()); tid != "" {
						st.assume(or(eq(leaf.S, "0"), eq("(rtype "+leaf.S+")", tid)))
					}
				}
			}
		}
	})
	if changed {
		na := c.fresh("alloc", "(Array Int Bool)")
		st.assume(eq(na, cur))
		st.alloc = na
	}
	return v
}

// assumeAllocatedOrFresh: a call may allocate. The allocated set after the call is a superset of
// the one before; every reference in the result is nil or allocated afterwards.
func (c *FnCtx) assumeAllocatedOrFresh(st *State, v Val) {
	hasRef := false
	walkLeaves(v, "", func(path string, leaf Val) {
		if leaf.K == KRef || leaf.K == KIface || strings.HasSuffix(path, "#base") {
			hasRef = true
		}
	})
	if !hasRef {
		return
	}
	na := c.fresh("alloc", "(Array Int Bool)")
	st.assume(fmt.Sprintf("(forall ((r Int)) (=> (select %s r) (select %s r)))", st.alloc, na))
	st.assume(not(sel(na, "0")))
	st.alloc = na
	walkLeaves(v, "", func(path string, leaf Val) {
		if leaf.K == KRef || strings.HasSuffix(path, "#base") {
			st.assume(or(eq(leaf.S, "0"), sel(na, leaf.S)))
			if leaf.K == KRef {
				if pt, ok := leaf.T.Underlying().(*types.Pointer); ok {
					if tid := c.refTypeID(pt.Elem()); tid != "" {
						st.assume(or(eq(leaf.S, "0"), eq("(rtype "+leaf.S+")", tid)))
					}
				}
			}
		}
	})
}

func (c *FnCtx) canInline(f *ssa.Function) bool {
	if f == nil || f.Blocks == nil || c.inlineDepth >= 3 {
		return false
	}
	pkg := f.Pkg
	if pkg == nil && f.Parent() != nil {
		pkg = f.Parent().Pkg
	}
	if pkg == nil || !strings.HasPrefix(pkg.Pkg.Path(), "github.com/uber/kraken") {
		return false
	}
	n := 0
	for _, b := range f.Blocks {
		n += len(b.Instrs)
		for _, s := range b.Succs {
			if s.Dominates(b) {
				return false // loop
			}
		}
		for _, in := range b.Instrs {
			switch in.(type) {
			case *ssa.Go, *ssa.Select:
				return false
			}
		}
	}
	return n <= 60
}

func (c *FnCtx) inlineCall(frame *Frame, st *State, in ssa.Instruction, callee *ssa.Function, args []Val, fvs []Val, k func(st *State, res Val)) {
	c.inlined[callee.String()] = true
	sub := c.newFrame(callee, &FuncContract{Invs: map[int][]*Clause{}})
	sub.inlined = true
	for i, p := range callee.Params {
		if i < len(args) {
			st.env[p] = args[i]
		}
	}
	for i, fv := range callee.FreeVars {
		if i < len(fvs) {
			st.env[fv] = fvs[i]
		} else {
			st.env[fv] = c.freshVal(st, fv.Type(), "fv")
		}
	}
	c.inlineDepth++
	depth := c.inlineDepth
	sub.onReturn = func(st2 *State, results []Val, ret *ssa.Return) {
		var res Val
		switch len(results) {
		case 0:
			res = Val{K: KTuple}
		case 1:
			res = results[0]
		default:
			res = Val{T: callee.Signature.Results(), K: KTuple, F: results}
		}
		save := c.inlineDepth
		c.inlineDepth = depth - 1
		k(st2, res)
		c.inlineDepth = save
	}
	c.execBlock(sub, callee.Blocks[0], nil, st)
	c.inlineDepth = depth - 1
}

// callByContract applies a callee contract at a call site.
func (c *FnCtx) callByContract(frame *Frame, st *State, in ssa.Instruction, callee *ssa.Function, fc *FuncContract, key string, args []Val, rt types.Type, k func(st *State, res Val)) {
	c.usedContracts[key] = fc
	ord := c.callOrdinal(in, key)
	env := &SpecEnv{c: c, st: st, heap: st.heap, vars: map[string]Val{}, frame: frame, foreign: true, fvs: c.callFVs}
	c.callFVs = nil
	env.pkg = c.eng.pkgOf(fc.PkgPath)
	if env.pkg == nil && frame != nil {
		env.pkg = frame.fn.Pkg.Pkg
	}
	names := c.paramNames(callee, fc, len(args))
	for i, a := range args {
		if i < len(names) && names[i] != "" {
			env.vars[names[i]] = a
		}
	}
	for n, v := range c.callOuter {
		if _, bound := env.vars[n]; !bound {
			env.vars[n] = v
		}
	}
	c.callOuter = nil
	short := key[strings.LastIndex(key, "/")+1:]
	// requires_locked clauses are rely assumptions about lock-guarded state (justified by the
	// client-side discipline stated in the ordinary preconditions); they are not call-site obligations
	for _, r := range fc.Requires {
		t, err := c.evalBool(env, r.Expr)
		if err != nil {
			c.errs = append(c.errs, fmt.Sprintf("%s:%d: requires %s at call: %v", r.File, r.Line, r.Label, err))
			continue
		}
		c.addOblig(st, fmt.Sprintf("call:%s#%d:requires:%s", short, ord, r.Label), "precondition", t, r.Text, in.Pos())
		st.assume(t)
	}
	preHeap := copyHeap(st.heap)
	preAlloc := st.alloc
	// havoc modifies
	for _, m := range fc.Modifies {
		c.havocModItem(st, env, m, preHeap)
	}
	res := c.contractResult(st, rt, "ret."+short)
	if fc.Pure && res.IsScalar() {
		// result is a function of the scalar argument leaves
		var leaves, sorts []string
		for _, a := range args {
			walkLeaves(a, "", func(p string, l Val) { leaves = append(leaves, l.S); sorts = append(sorts, leafSort(l.K)) })
		}
		fn := sym("pure|" + key)
		c.declareFun(fn, sorts, leafSort(res.K))
		if len(leaves) > 0 {
			st.assume(eq(res.S, "("+fn+" "+strings.Join(leaves, " ")+")"))
		} else {
			st.assume(eq(res.S, fn))
		}
	}
	// finish assumes the callee's postconditions in state st (normally the state reached above; the
	// callback rule of callbacks.go calls it once per path) and continues with k
	finish := func(st *State, res Val) {
	// fresh results are allocated after the call; model: result refs are nil, old, or new
	post := &SpecEnv{c: c, st: st, heap: st.heap, vars: map[string]Val{}, pkg: env.pkg, frame: frame}
	old := &SpecEnv{c: c, st: st, heap: preHeap, vars: map[string]Val{}, pkg: env.pkg, frame: frame, isOld: true, alloc: preAlloc}
	for n, v := range env.vars {
		post.vars[n] = v
		old.vars[n] = v
	}
	post.old = old
	c.bindResults(post, callee, fc, res, rt)
	// the callee returns holding these mutexes: the guarded state is whatever the lock
	// invariant allows, and the caller now owns the lock
	for _, acq := range fc.Acquires {
		e, err := parseExpr(acq)
		if err != nil || e.Op != "sel" {
			c.errs = append(c.errs, "acquires: bad mutex expression "+acq)
			continue
		}
		obj, err := c.eval(post, e.Args[0])
		if err != nil {
			c.errs = append(c.errs, "acquires: "+err.Error())
			continue
		}
		owner, ok := fieldOwner(obj)
		if !ok {
			continue
		}
		li := c.findLockInv(typeName(owner), e.Name)
		if li == nil {
			c.note("acquires: mutex " + acq + " has no lockinv")
			continue
		}
		c.havocGuarded(st, li, obj.S)
		c.assumeLockInv(st, li, obj.S)
		st.held[typeName(owner)+"."+e.Name+"@"+obj.S] = true
		if !st.lockedOnce {
			st.lockedOnce = true
			st.oldHeap = copyHeap(st.heap)
		}
	}
	for _, e := range fc.Ensures {
		t, err := c.evalBool(post, e.Expr)
		if err != nil {
			c.errs = append(c.errs, fmt.Sprintf("%s:%d: ensures %s at call: %v", e.File, e.Line, e.Label, err))
			continue
		}
		st.assume(t)
	}
	for _, e := range fc.Lemmas {
		t, err := c.evalBool(post, e.Expr)
		if err != nil {
			c.errs = append(c.errs, fmt.Sprintf("%s:%d: lemma %s at call: %v", e.File, e.Line, e.Label, err))
			continue
		}
		st.assume(t)
		c.note("assumed lemma " + shortKey(key) + ":" + e.Label + " (" + e.Text + "): not checked against the body")
	}
	k(st, res)
	}
	if len(fc.Callbacks) > 0 && callee != nil {
		if c.applyCallbacks(frame, st, in, callee, fc, key, names, args, env, preHeap, res, finish) {
			return
		}
	}
	finish(st, res)
}

func (c *FnCtx) bindResults(env *SpecEnv, callee *ssa.Function, fc *FuncContract, res Val, rt types.Type) {
	if tt, ok := rt.(*types.Tuple); ok {
		for i := 0; i < tt.Len() && i < len(res.F); i++ {
			env.vars[fmt.Sprintf("result%d", i)] = res.F[i]
			if n := tt.At(i).Name(); n != "" && n != "_" {
				env.vars[n] = res.F[i]
			}
		}
		return
	}
	env.vars["result"] = res
	env.vars["result0"] = res
	if callee != nil && callee.Signature.Results().Len() == 1 {
		if n := callee.Signature.Results().At(0).Name(); n != "" && n != "_" {
			env.vars[n] = res
		}
	}
}

func (c *FnCtx) paramNames(callee *ssa.Function, fc *FuncContract, n int) []string {
	if len(fc.Names) > 0 {
		return fc.Names
	}
	var names []string
	if callee != nil {
		if len(callee.Params) > 0 {
			for _, p := range callee.Params {
				names = append(names, p.Name())
			}
			return names
		}
		// no body (imported through export data): names from the signature
		sig := callee.Signature
		if sig.Recv() != nil {
			names = append(names, sig.Recv().Name())
		}
		for i := 0; i < sig.Params().Len(); i++ {
			names = append(names, sig.Params().At(i).Name())
		}
		return names
	}
	return names
}

func (c *FnCtx) callOrdinal(in ssa.Instruction, key string) int {
	if o, ok := c.callOrd[in]; ok {
		return o
	}
	k := "call:" + key
	c.counters[k]++
	c.callOrd[in] = c.counters[k] - 1
	return c.callOrd[in]
}

// havocModItem havocs the locations named by one modifies item (evaluated in env).
func (c *FnCtx) havocModItem(st *State, env *SpecEnv, m ModItem, preHeap map[string]string) {
	switch m.Kind {
	case "every":
		for _, name := range c.everyArrays(env.pkg, m) {
			c.heapHavoc(st, name)
		}
	case "all":
		for name := range c.allArrays() {
			old := c.heapGet(st.heap, name)
			nv := c.heapHavoc(st, name)
			// the caller's own stack variables (non-escaping allocations) are out of the callee's reach
			if name[0] == 'F' || name[0] == 'C' {
				for r := range c.stackRefs {
					st.assume(eq(sel(nv, r), sel(old, r)))
				}
			}
		}
		c.note("modifies * : whole heap havoc (except the caller's stack variables)")
	case "field":
		// x.f, or x.g.f where g is a struct-valued field of the object x points to
		base, inner := m.Expr, ""
		obj, err := c.eval(env, base)
		for err == nil && base.Op == "sel" {
			if _, isPtr := fieldOwner(obj); isPtr {
				break
			}
			inner = joinPath(base.Name, inner)
			base = base.Args[0]
			obj, err = c.eval(env, base)
		}
		if err != nil {
			c.errs = append(c.errs, "modifies: "+err.Error())
			return
		}
		owner, ok := fieldOwner(obj)
		if !ok {
			c.errs = append(c.errs, "modifies: "+m.Expr.String()+" is not a pointer")
			return
		}
		key := typeName(owner)
		var ft types.Type
		ghost := false
		if inner == "" {
			ft, ghost = c.fieldType(owner, m.Name)
		} else {
			// walk the struct-valued fields
			var cur types.Type = owner
			for _, comp := range strings.Split(inner, ".") {
				t, _ := c.fieldType(cur, comp)
				if t == nil {
					cur = nil
					break
				}
				cur = t
			}
			if cur != nil {
				ft, _ = c.fieldType(cur, m.Name)
			}
		}
		if ft == nil {
			c.errs = append(c.errs, "modifies: no field "+m.Name)
			return
		}
		path := joinPath(inner, m.Name)
		if ghost {
			path = "$" + m.Name
		}
		if obj.A != nil && !ghost {
			// an interior pointer (&x.g, &s[i]): the field lives inside the containing object,
			// which is where loads of x.g.f read it - havoc it there
			a := &Addr{Space: obj.A.Space, Key: obj.A.Key, Idx: obj.A.Idx, Path: joinPath(obj.A.Path, path), T: ft}
			nv := c.freshVal(st, ft, "havoc."+m.Name)
			c.store(st, a, nv)
			return
		}
		for _, lf := range leavesOf(ft) {
			name := arrName("F", key, joinPath(path, lf.Path), lf.Sort)
			old := c.heapGet(st.heap, name)
			nv := c.fresh("havoc."+m.Name, lf.Sort)
			c.heapSet(st, name, sto(old, obj.S, nv))
			if f := rangeFact(lf.T, nv); f != "" && kindOf(lf.T) == KInt && !strings.Contains(lf.Path, "#") {
				st.assume(f)
			}
		}
	case "sent":
		ch, err := c.eval(env, m.Expr)
		if err != nil {
			c.errs = append(c.errs, "modifies: "+err.Error())
			return
		}
		name := arrName("S", "sent", "", "Int")
		arr := c.heapGet(st.heap, name)
		nv := c.fresh("sent", "Int")
		st.assume("(>= " + nv + " 0)")
		c.heapSet(st, name, sto(arr, ch.S, nv))
	case "map":
		mv, err := c.eval(env, m.Expr)
		if err != nil {
			c.errs = append(c.errs, "modifies: "+err.Error())
			return
		}
		c.havocMapRow(st, mv)
	case "mem":
		sv, err := c.eval(env, m.Expr)
		if err != nil || sv.K != KSlice {
			c.errs = append(c.errs, "modifies mem: not a slice: "+m.Expr.String())
			return
		}
		et := sv.T.Underlying().(*types.Slice).Elem()
		for _, lf := range leavesOf(et) {
			name := arrName("M", elemKey(et), lf.Path, lf.Sort)
			old := c.heapGet(st.heap, name)
			row := c.fresh("havoc.row", "(Array Int "+lf.Sort+")")
			c.heapSet(st, name, sto(old, sv.Base(), row))
		}
	case "cell":
		pv, err := c.eval(env, m.Expr)
		if err != nil {
			c.errs = append(c.errs, "modifies: "+err.Error())
			return
		}
		a := c.addrOfPointer(pv)
		if a == nil {
			c.errs = append(c.errs, "modifies cell: not a pointer")
			return
		}
		nv := c.freshVal(st, a.T, "havoc.cell")
		c.store(st, a, nv)
	}
}

func (c *FnCtx) havocMapRow(st *State, mv Val) {
	mt, ok := mv.T.Underlying().(*types.Map)
	if !ok {
		c.errs = append(c.errs, "modifies map: not a map")
		return
	}
	key := mapKeyOf(mv.T)
	// type safety: a non-nil map value of static type T refers to a map object of type T (the same
	// fact is assumed wherever the program loads a map); it separates this map's length cell from
	// the length cells of maps of other types, which share one array
	if tid := c.refTypeID(mv.T); tid != "" {
		st.assume(or(eq(mv.S, "0"), eq("(rtype "+mv.S+")", tid)))
	}
	dn := arrName("D", key, "", "Bool")
	c.heapSet(st, dn, sto(c.heapGet(st.heap, dn), mv.S, c.fresh("havoc.dom", "(Array Int Bool)")))
	ln := arrName("L", "", "", "Int")
	nl := c.fresh("havoc.len", "Int")
	st.assume("(>= " + nl + " 0)")
	c.heapSet(st, ln, sto(c.heapGet(st.heap, ln), mv.S, nl))
	for _, lf := range leavesOf(mt.Elem()) {
		name := arrName("V", key, lf.Path, lf.Sort)
		c.heapSet(st, name, sto(c.heapGet(st.heap, name), mv.S, c.fresh("havoc.vals", "(Array Int "+lf.Sort+")")))
	}
	c.havocSums(st, mv.T, mv.S)
}

// everyArrays lists the heap arrays of a "modifies every T.f" item.
func (c *FnCtx) everyArrays(pkg *types.Package, m ModItem) []string {
	t := c.eng.resolveType(pkg, m.Type)
	if t == nil {
		c.errs = append(c.errs, "modifies every: unknown type "+m.Type)
		return nil
	}
	if m.Name == "" {
		// allmem T
		var out []string
		for _, lf := range leavesOf(t) {
			out = append(out, arrName("M", elemKey(t), lf.Path, lf.Sort))
		}
		return out
	}
	if m.Name == "#maps" {
		mt, ok := t.Underlying().(*types.Map)
		if !ok {
			c.errs = append(c.errs, "modifies allmaps: not a map type "+m.Type)
			return nil
		}
		mk := mapKeyOf(t)
		out := []string{arrName("D", mk, "", "Bool"), arrName("L", "", "", "Int")}
		for _, lf := range leavesOf(mt.Elem()) {
			out = append(out, arrName("V", mk, lf.Path, lf.Sort))
		}
		return out
	}
	ft, ghost := c.fieldType(t, m.Name)
	if ft == nil {
		c.errs = append(c.errs, "modifies every: unknown field "+m.Type+"."+m.Name)
		return nil
	}
	path := m.Name
	if ghost {
		path = "$" + m.Name
	}
	var out []string
	for _, lf := range leavesOf(ft) {
		out = append(out, arrName("F", typeName(t), joinPath(path, lf.Path), lf.Sort))
	}
	return out
}

func (c *FnCtx) allArrays() map[string]bool {
	out := map[string]bool{}
	for n := range c.knownArrays {
		out[n] = true
	}
	return out
}

// fieldType looks up a (possibly ghost) field of struct type t.
func (c *FnCtx) fieldType(t types.Type, name string) (types.Type, bool) {
	if st, ok := t.Underlying().(*types.Struct); ok {
		for i := 0; i < st.NumFields(); i++ {
			if st.Field(i).Name() == name {
				return st.Field(i).Type(), false
			}
		}
	}
	if n, ok := t.(*types.Named); ok {
		for _, g := range c.eng.cs.Ghosts {
			if g.Type == n.Obj().Name() && g.Name == name && (n.Obj().Pkg() == nil || g.PkgPath == n.Obj().Pkg().Path()) {
				if g.FieldType == "int" {
					return types.Typ[types.UntypedInt], true // ghost integers are mathematical
				}
				gt := c.eng.resolveType(n.Obj().Pkg(), g.FieldType)
				if gt != nil {
					return gt, true
				}
			}
		}
	}
	return nil, false
}

// ---- builtins ---------------------------------------------------------------------------------

func (c *FnCtx) builtin(frame *Frame, st *State, in ssa.Instruction, b *ssa.Builtin, call *ssa.CallCommon, args []Val, rt types.Type, k func(st *State, res Val)) {
	it := types.Typ[types.Int]
	switch b.Name() {
	case "len":
		a := args[0]
		switch a.K {
		case KSlice:
			k(st, scalar(it, a.Len()))
		case KString:
			k(st, scalar(it, "(strlen "+a.S+")"))
		case KRef:
			if _, ok := a.T.Underlying().(*types.Map); ok {
				c.mapFacts(st, mapKeyOf(a.T), a.S, "")
				// cardinality axiom instance: an empty map has no keys
				{
					d := c.heapGet(st.heap, arrName("D", mapKeyOf(a.T), "", "Bool"))
					l := c.heapGet(st.heap, arrName("L", "", "", "Int"))
					st.assume(fmt.Sprintf("(=> (= (select %s %s) 0) (forall ((k Int)) (not (select (select %s %s) k))))", l, a.S, d, a.S))
					// and a non-empty map has some key (a witness)
					w := c.fresh("mapwit", "Int")
					st.assume(fmt.Sprintf("(=> (> (select %s %s) 0) (select (select %s %s) %s))", l, a.S, d, a.S, w))
				}
				k(st, scalar(it, sel(c.heapGet(st.heap, arrName("L", "", "", "Int")), a.S)))
				return
			}
			if pt, ok := a.T.Underlying().(*types.Pointer); ok {
				if at, ok := pt.Elem().Underlying().(*types.Array); ok {
					k(st, scalar(it, fmt.Sprintf("%d", at.Len())))
					return
				}
			}
			r := c.freshVal(st, it, "chanlen")
			st.assume("(>= " + r.S + " 0)")
			k(st, r)
		case KArray:
			at := a.T.Underlying().(*types.Array)
			k(st, scalar(it, fmt.Sprintf("%d", at.Len())))
		default:
			k(st, c.freshVal(st, it, "len"))
		}
	case "cap":
		a := args[0]
		if a.K == KSlice {
			k(st, scalar(it, a.Cap()))
		} else {
			r := c.freshVal(st, it, "cap")
			st.assume("(>= " + r.S + " 0)")
			k(st, r)
		}
	case "append":
		c.doAppend(st, in, args[0], args[1], rt, k)
	case "copy":
		c.doCopy(st, args[0], args[1], k)
	case "delete":
		c.mapDelete(st, call.Args[0].Type(), args[0].S, args[1])
		k(st, Val{K: KTuple})
	case "min", "max":
		r := args[0]
		for _, a := range args[1:] {
			if b.Name() == "min" {
				r = scalar(rt, ite("(<= "+r.S+" "+a.S+")", r.S, a.S))
			} else {
				r = scalar(rt, ite("(>= "+r.S+" "+a.S+")", r.S, a.S))
			}
		}
		k(st, r)
	case "close", "print", "println", "clear":
		if b.Name() == "clear" {
			c.note("clear() abstracted")
		}
		k(st, Val{K: KTuple})
	case "recover":
		k(st, zeroVal(rt))
	case "ssa:wrapnilchk":
		k(st, args[0])
	default:
		c.note("builtin " + b.Name() + " abstracted")
		k(st, c.havocResult(st, rt, "builtin"))
	}
}

func (c *FnCtx) doAppend(st *State, in ssa.Instruction, s, t Val, rt types.Type, k func(st *State, res Val)) {
	if t.K != KSlice {
		// append([]byte, string...)
		c.note("append of string abstracted")
		n := "(strlen " + t.S + ")"
		r := c.allocRef(st, "append")
		nl := "(+ " + s.Len() + " " + n + ")"
		nc := c.fresh("cap", "Int")
		st.assume("(>= " + nc + " " + nl + ")")
		k(st, sliceVal(rt, r, "0", nl, nc))
		return
	}
	et := rt.Underlying().(*types.Slice).Elem()
	lvs := leavesOf(et)
	newLen := "(+ " + s.Len() + " " + t.Len() + ")"
	tn, tconst := smallConst(t.Len())
	fits := fmt.Sprintf("(<= %s %s)", newLen, s.Cap())
	c.paths++
	// case 1: in place
	{
		s1 := st.clone()
		s1.assume(fits)
		for _, lf := range lvs {
			name := arrName("M", elemKey(et), lf.Path, lf.Sort)
			arr := c.heapGet(s1.heap, name)
			if tconst && tn <= 4 {
				row := sel(arr, s.Base())
				for j := int64(0); j < tn; j++ {
					row = sto(row, slot(s.Off(), plus(s.Len(), fmt.Sprintf("%d", j))), sel2(arr, t.Base(), slot(t.Off(), fmt.Sprintf("%d", j))))
				}
				c.heapSet(s1, name, sto(arr, s.Base(), row))
			} else {
				row := c.fresh("append.row", "(Array Int "+lf.Sort+")")
				s1.assume(fmt.Sprintf("(forall ((j Int)) (! (= (select %s j) (ite (and (<= (+ %s %s) j) (< j (+ %s %s))) (select (select %s %s) %s) (select (select %s %s) j))) :pattern ((select %s j))))",
					row, s.Off(), s.Len(), s.Off(), newLen, arr, t.Base(), slot(t.Off(), "(- j (+ "+s.Off()+" "+s.Len()+"))"), arr, s.Base(), row))
				c.heapSet(s1, name, sto(arr, s.Base(), row))
			}
		}
		k(s1, sliceVal(rt, s.Base(), s.Off(), newLen, s.Cap()))
	}
	// case 2: reallocate
	{
		st.assume(not(fits))
		r := c.allocRef(st, "append")
		nc := c.fresh("cap", "Int")
		st.assume("(>= " + nc + " " + newLen + ")")
		for _, lf := range lvs {
			name := arrName("M", elemKey(et), lf.Path, lf.Sort)
			arr := c.heapGet(st.heap, name)
			zero := "0"
			if lf.Sort == "Bool" {
				zero = "false"
			} else if kindOf(lf.T) == KString {
				zero = "str_empty"
			}
			row := c.fresh("append.row", "(Array Int "+lf.Sort+")")
			st.assume(fmt.Sprintf("(forall ((j Int)) (! (= (select %s j) (ite (and (<= 0 j) (< j %s)) (select (select %s %s) %s) (ite (and (<= %s j) (< j %s)) (select (select %s %s) %s) %s))) :pattern ((select %s j))))",
				row, s.Len(), arr, s.Base(), slot(s.Off(), "j"), s.Len(), newLen, arr, t.Base(), slot(t.Off(), "(- j "+s.Len()+")"), zero, row))
			// redundant instances of the definition that give the solvers the terms they match on:
			// every old element that is mentioned has its copy, and the appended elements are named
			oldElem := sel2(arr, s.Base(), slot(s.Off(), "k"))
			st.assume(fmt.Sprintf("(forall ((k Int)) (! (=> (and (<= 0 k) (< k %s)) (= (select %s %s) %s)) :pattern (%s)))",
				s.Len(), row, slot("0", "k"), oldElem, oldElem))
			if tconst && tn <= 4 {
				for j := int64(0); j < tn; j++ {
					st.assume(eq(sel(row, slot("0", plus(s.Len(), fmt.Sprintf("%d", j)))), sel2(arr, t.Base(), slot(t.Off(), fmt.Sprintf("%d", j)))))
				}
			}
			c.heapSet(st, name, sto(arr, r, row))
		}
		k(st, sliceVal(rt, r, "0", newLen, nc))
	}
}

func (c *FnCtx) doCopy(st *State, dst, src Val, k func(st *State, res Val)) {
	it := types.Typ[types.Int]
	if dst.K != KSlice {
		k(st, c.freshVal(st, it, "copy"))
		return
	}
	var srcLen string
	if src.K == KSlice {
		srcLen = src.Len()
	} else {
		srcLen = "(strlen " + src.S + ")"
	}
	n := c.fresh("copy.n", "Int")
	st.assume(eq(n, ite("(<= "+dst.Len()+" "+srcLen+")", dst.Len(), srcLen)))
	et := dst.T.Underlying().(*types.Slice).Elem()
	for _, lf := range leavesOf(et) {
		name := arrName("M", elemKey(et), lf.Path, lf.Sort)
		arr := c.heapGet(st.heap, name)
		row := c.fresh("copy.row", "(Array Int "+lf.Sort+")")
		if src.K == KSlice {
			st.assume(fmt.Sprintf("(forall ((j Int)) (! (= (select %s j) (ite (and (<= %s j) (< j (+ %s %s))) (select (select %s %s) %s) (select (select %s %s) j))) :pattern ((select %s j))))",
				row, dst.Off(), dst.Off(), n, arr, src.Base(), slot(src.Off(), "(- j "+dst.Off()+")"), arr, dst.Base(), row))
			// redundant instance of the definition, triggered by a mention of a source element
			srcElem := sel2(arr, src.Base(), slot(src.Off(), "k"))
			st.assume(fmt.Sprintf("(forall ((k Int)) (! (=> (and (<= 0 k) (< k %s)) (= (select %s %s) %s)) :pattern (%s)))",
				n, row, slot(dst.Off(), "k"), srcElem, srcElem))
		} else {
			c.declareFun("str_at", []string{"Int", "Int"}, "Int")
			st.assume(fmt.Sprintf("(forall ((j Int)) (= (select %s j) (ite (and (<= %s j) (< j (+ %s %s))) (str_at %s (- j %s)) (select (select %s %s) j))))",
				row, dst.Off(), dst.Off(), n, src.S, dst.Off(), arr, dst.Base()))
		}
		c.heapSet(st, name, sto(arr, dst.Base(), row))
	}
	k(st, scalar(it, n))
}

// spawn handles go statements: check the callee precondition if it has a contract.
func (c *FnCtx) spawn(frame *Frame, st *State, x *ssa.Go) {
	callee := x.Call.StaticCallee()
	if callee == nil {
		return
	}
	key := contractKeyForFunc(callee)
	if !frame.inlined && frame.contract != nil && len(frame.contract.Asserts) > 0 {
		c.checkCallSiteAsserts(frame, st, x, key)
	}
	fc := c.eng.cs.Funcs[key]
	if fc == nil {
		return
	}
	var args []Val
	for _, a := range x.Call.Args {
		args = append(args, c.val(st, a))
	}
	env := &SpecEnv{c: c, st: st, heap: st.heap, vars: map[string]Val{}, frame: frame, pkg: c.eng.pkgOf(fc.PkgPath), foreign: true}
	if mc, ok := x.Call.Value.(*ssa.MakeClosure); ok {
		env.fvs = c.closureBindings(st, mc)
	}
	names := c.paramNames(callee, fc, len(args))
	for i, a := range args {
		if i < len(names) {
			env.vars[names[i]] = a
		}
	}
	ord := c.callOrdinal(x, key)
	short := key[strings.LastIndex(key, "/")+1:]
	for _, r := range fc.Requires {
		t, err := c.evalBool(env, r.Expr)
		if err != nil {
			c.errs = append(c.errs, err.Error())
			continue
		}
		c.addOblig(st, fmt.Sprintf("spawn:%s#%d:requires:%s", short, ord, r.Label), "precondition", t, r.Text, x.Pos())
	}
}

// closureBindings maps the names of a closure's captured variables to the pointers to their cells.
func (c *FnCtx) closureBindings(st *State, mc *ssa.MakeClosure) map[string]Val {
	m := map[string]Val{}
	fn, ok := mc.Fn.(*ssa.Function)
	if !ok {
		return m
	}
	for i, b := range mc.Bindings {
		if i < len(fn.FreeVars) {
			m[fn.FreeVars[i].Name()] = c.val(st, b)
		}
	}
	return m
}

var _ = token.NoPos
