package main

// Execution of the non-control SSA instructions.

import (
	"fmt"
	"go/token"
	"go/types"
	"strings"

	"golang.org/x/tools/go/ssa"
)

type forkFn func(k func(st *State))

// step executes one instruction. ok=false ends the path. A non-nil fork means the
// instruction has several successor states.
func (c *FnCtx) step(frame *Frame, st *State, in ssa.Instruction) (forkFn, bool) {
	switch x := in.(type) {
	case *ssa.DebugRef:
		return nil, true
	case *ssa.Alloc:
		c.doAlloc(st, x)
	case *ssa.BinOp:
		st.env[x] = c.binop(st, x, x.Op, c.val(st, x.X), c.val(st, x.Y), x.Type())
	case *ssa.UnOp:
		return nil, c.unop(st, x)
	case *ssa.ChangeType:
		v := c.val(st, x.X)
		st.env[x] = retype(v, x.Type())
	case *ssa.Convert:
		st.env[x] = c.convert(st, c.val(st, x.X), x.Type())
	case *ssa.MultiConvert:
		st.env[x] = c.convert(st, c.val(st, x.X), x.Type())
	case *ssa.ChangeInterface:
		v := c.val(st, x.X)
		st.env[x] = Val{T: x.Type(), K: KIface, S: v.S}
	case *ssa.MakeInterface:
		st.env[x] = c.makeInterface(st, c.val(st, x.X), x.Type())
	case *ssa.MakeClosure:
		r := c.allocRef(st, "closure")
		st.env[x] = scalar(x.Type(), r)
		c.closures[r] = x
	case *ssa.MakeMap:
		r := c.allocRefT(st, "map", x.Type())
		key := mapKeyOf(x.Type())
		dn := arrName("D", key, "", "Bool")
		c.heapSet(st, dn, sto(c.heapGet(st.heap, dn), r, "((as const (Array Int Bool)) false)"))
		ln := arrName("L", "", "", "Int")
		c.heapSet(st, ln, sto(c.heapGet(st.heap, ln), r, "0"))
		st.env[x] = scalar(x.Type(), r)
	case *ssa.MakeChan:
		st.env[x] = scalar(x.Type(), c.allocRef(st, "chan"))
	case *ssa.MakeSlice:
		ln := c.val(st, x.Len).S
		cp := c.val(st, x.Cap).S
		if !frame.inlined && frame.contract != nil && len(frame.contract.Asserts) > 0 {
			// call-site rules may bound an allocation: assert ... at builtin.make#k :: expr
			c.checkCallSiteAsserts(frame, st, x, "builtin.make")
		}
		c.safety(st, x, "makeslice", fmt.Sprintf("(and (<= 0 %s) (<= %s %s) (<= %s 1099511627776))", ln, ln, cp, cp), "make([]T, len, cap): 0 <= len <= cap <= 2^40")
		r := c.allocRef(st, "slice")
		et := x.Type().Underlying().(*types.Slice).Elem()
		for _, lf := range leavesOf(et) {
			an := arrName("M", elemKey(et), lf.Path, lf.Sort)
			zero := "0"
			if lf.Sort == "Bool" {
				zero = "false"
			} else if kindOf(lf.T) == KString {
				zero = "str_empty"
			}
			c.heapSet(st, an, sto(c.heapGet(st.heap, an), r, fmt.Sprintf("((as const (Array Int %s)) %s)", lf.Sort, zero)))
		}
		st.env[x] = sliceVal(x.Type(), r, "0", ln, cp)
	case *ssa.Slice:
		return nil, c.doSlice(st, x)
	case *ssa.FieldAddr:
		return nil, c.fieldAddr(st, x)
	case *ssa.Field:
		v := c.val(st, x.X)
		if v.K != KStruct || x.Field >= len(v.F) {
			c.note("Field on non-struct value")
			st.env[x] = c.freshVal(st, x.Type(), "field")
		} else {
			st.env[x] = v.F[x.Field]
		}
	case *ssa.IndexAddr:
		return nil, c.indexAddr(st, x)
	case *ssa.Index:
		// index of array value or string: uninterpreted
		xv, iv := c.val(st, x.X), c.val(st, x.Index)
		if kindOf(x.X.Type()) == KString {
			c.safety(st, x, "index", fmt.Sprintf("(and (<= 0 %s) (< %s (strlen %s)))", iv.S, iv.S, xv.S), "string index in range")
			c.declareFun("str_at", []string{"Int", "Int"}, "Int")
			r := fmt.Sprintf("(str_at %s %s)", xv.S, iv.S)
			st.assume(fmt.Sprintf("(and (<= 0 %s) (<= %s 255))", r, r))
			st.env[x] = scalar(x.Type(), r)
		} else {
			if at, ok := x.X.Type().Underlying().(*types.Array); ok {
				c.safety(st, x, "index", fmt.Sprintf("(and (<= 0 %s) (< %s %d))", iv.S, iv.S, at.Len()), "array index in range")
			}
			c.declareFun("arr_at", []string{"Int", "Int"}, "Int")
			res := c.freshVal(st, x.Type(), "arrelem")
			if res.IsScalar() && res.K != KBool {
				st.assume(eq(res.S, fmt.Sprintf("(arr_at %s %s)", xv.S, iv.S)))
			}
			st.env[x] = res
		}
	case *ssa.Lookup:
		c.lookup(st, x)
	case *ssa.Range:
		c.doRange(frame, st, x)
	case *ssa.Next:
		return c.doNext(frame, st, x)
	case *ssa.TypeAssert:
		return c.typeAssert(st, x)
	case *ssa.Extract:
		t := c.val(st, x.Tuple)
		if t.K == KTuple && x.Index < len(t.F) {
			st.env[x] = t.F[x.Index]
		} else {
			st.env[x] = c.freshVal(st, x.Type(), "extract")
		}
	case *ssa.Go:
		c.note("go statement: spawned body not followed")
		c.spawn(frame, st, x)
	case *ssa.Defer:
		st.defers = append(st.defers, deferred{frame.id, x})
	case *ssa.Send:
		// ghost: sent(ch) counts the messages sent on a channel (blocking and buffering are not
		// modelled: a send is treated as completing)
		ch := c.val(st, x.Chan)
		c.checkCallSiteAsserts(frame, st, x, "builtin.send")
		name := arrName("S", "sent", "", "Int")
		arr := c.heapGet(st.heap, name)
		st.assume("(>= " + sel(arr, ch.S) + " 0)")
		c.heapSet(st, name, sto(arr, ch.S, "(+ "+sel(arr, ch.S)+" 1)"))
		c.note("channel send: counted in ghost sent(ch); blocking not modelled")
	case *ssa.Select:
		c.note("select abstracted (nondeterministic choice)")
		st.env[x] = c.freshVal(st, x.Type(), "select")
		// index in range
		tv := st.env[x]
		if tv.K == KTuple && len(tv.F) > 0 {
			lo := "0"
			if !x.Blocking {
				lo = "(- 1)"
			}
			st.assume(fmt.Sprintf("(and (<= %s %s) (< %s %d))", lo, tv.F[0].S, tv.F[0].S, len(x.States)))
			// a chosen send case sends: count it in the ghost sent(ch)
			name := arrName("S", "sent", "", "Int")
			arr := c.heapGet(st.heap, name)
			cur := arr
			for i, s := range x.States {
				if s.Dir == types.SendOnly {
					ch := c.val(st, s.Chan)
					st.assume("(>= " + sel(arr, ch.S) + " 0)")
					cur = ite(eq(tv.F[0].S, fmt.Sprintf("%d", i)), sto(arr, ch.S, "(+ "+sel(arr, ch.S)+" 1)"), cur)
				}
			}
			if cur != arr {
				c.heapSet(st, name, cur)
				c.note("select with a send case: the send is counted in ghost sent(ch) when that case is chosen")
			}
		}
	case *ssa.Store:
		return nil, c.doStore(st, x)
	case *ssa.MapUpdate:
		return nil, c.mapUpdate(st, x)
	case *ssa.SliceToArrayPointer:
		c.note("slice to array pointer abstracted")
		st.env[x] = c.freshVal(st, x.Type(), "s2a")
	default:
		c.errs = append(c.errs, fmt.Sprintf("unsupported instruction %T at %s", in, c.pos(in.Pos())))
		return nil, false
	}
	return nil, true
}

func retype(v Val, t types.Type) Val {
	n := v
	n.T = t
	if v.K == KStruct {
		// field types may differ in name only
		st := t.Underlying().(*types.Struct)
		n.F = make([]Val, len(v.F))
		for i := range v.F {
			n.F[i] = retype(v.F[i], st.Field(i).Type())
		}
	}
	if nk := kindOf(t); nk != KStruct && nk != KSlice && nk != KTuple {
		n.K = nk
	}
	return n
}

func (c *FnCtx) doAlloc(st *State, x *ssa.Alloc) {
	t := x.Type().(*types.Pointer).Elem()
	r := c.allocRefT(st, "new."+x.Comment, t)
	if !x.Heap || capturedLocallyOnly(x) {
		if c.stackRefs == nil {
			c.stackRefs = map[string]bool{}
		}
		c.stackRefs[r] = true
	}
	pv := scalar(x.Type(), r)
	a := c.addrOfPointer(pv)
	if kindOf(t) == KArray {
		// zero row
		at := t.Underlying().(*types.Array)
		for _, lf := range leavesOf(at.Elem()) {
			an := arrName("M", elemKey(at.Elem()), lf.Path, lf.Sort)
			zero := "0"
			if lf.Sort == "Bool" {
				zero = "false"
			}
			c.heapSet(st, an, sto(c.heapGet(st.heap, an), r, fmt.Sprintf("((as const (Array Int %s)) %s)", lf.Sort, zero)))
		}
		st.env[x] = pv
		return
	}
	c.store(st, a, zeroVal(t))
	st.env[x] = pv
}

func (c *FnCtx) doStore(st *State, x *ssa.Store) bool {
	av := c.val(st, x.Addr)
	v := c.val(st, x.Val)
	a := c.addrOfPointer(av)
	if a == nil {
		c.errs = append(c.errs, "store through unsupported address at "+c.pos(x.Pos()).String())
		return false
	}
	if av.A == nil {
		c.safety(st, x, "nilderef", not(eq(av.S, "0")), "store through non-nil pointer")
	}
	if kindOf(a.T) == KArray && a.Space == "M" && a.Key != elemKey(a.T) {
		// a row of elements addressed through a pointer to an array; a slice element of array type
		// (a.Key == elemKey(a.T)) is one opaque cell and is stored like any scalar
		c.note("array value store abstracted")
		return true
	}
	c.checkGuardedWrite(st, a, x.Pos())
	c.checkAnonGuarded(st, a, x.Pos(), true)
	c.store(st, a, v)
	return true
}

func (c *FnCtx) unop(st *State, x *ssa.UnOp) bool {
	v := c.val(st, x.X)
	switch x.Op {
	case token.NOT:
		st.env[x] = scalar(x.Type(), not(v.S))
	case token.SUB:
		if v.K == KFloat {
			st.env[x] = c.freshVal(st, x.Type(), "fneg")
		} else {
			st.env[x] = scalar(x.Type(), wrapAddSub(x.Type(), "(- "+v.S+")"))
		}
	case token.XOR:
		c.note("bitwise complement abstracted")
		st.env[x] = c.freshVal(st, x.Type(), "xor")
	case token.ARROW:
		c.note("channel receive abstracted")
		st.env[x] = c.freshVal(st, x.Type(), "recv")
		c.assumeAllocated(st, st.env[x])
	case token.MUL:
		a := c.addrOfPointer(v)
		if a == nil {
			c.errs = append(c.errs, "load through unsupported address at "+c.pos(x.Pos()).String())
			return false
		}
		if v.A == nil {
			c.safety(st, x, "nilderef", not(eq(v.S, "0")), "load through non-nil pointer")
		}
		if kindOf(a.T) == KArray && a.Space == "M" && a.Key != elemKey(a.T) {
			c.note("array value load abstracted")
			st.env[x] = c.freshVal(st, x.Type(), "arrload")
			return true
		}
		c.checkAnonGuarded(st, a, x.Pos(), false)
		lv := c.load(st, a)
		c.assumeAllocated(st, lv)
		lv = retype(lv, x.Type())
		if g, ok := x.X.(*ssa.Global); ok {
			c.sentinelFacts(st, g, lv)
		}
		st.env[x] = lv
	default:
		c.errs = append(c.errs, "unsupported unary op "+x.Op.String())
		return false
	}
	return true
}

func (c *FnCtx) fieldAddr(st *State, x *ssa.FieldAddr) bool {
	v := c.val(st, x.X)
	pt := x.X.Type().Underlying().(*types.Pointer)
	stt := pt.Elem().Underlying().(*types.Struct)
	f := stt.Field(x.Field)
	base := c.addrOfPointer(v)
	if base == nil {
		c.errs = append(c.errs, "FieldAddr on unsupported pointer")
		return false
	}
	if v.A == nil {
		c.safety(st, x, "nilderef", not(eq(v.S, "0")), "field access through non-nil pointer: "+f.Name())
	}
	a := &Addr{Space: base.Space, Key: base.Key, Idx: base.Idx, Path: joinPath(base.Path, f.Name()), T: f.Type()}
	// a pointer to an interior location; identity as an Int is an injective function of (obj, path)
	fn := sym("fieldptr|" + base.Space + "|" + base.Key + "|" + a.Path)
	c.declareFun(fn, repeat("Int", len(base.Idx)), "Int")
	s := "(" + fn + " " + strings.Join(base.Idx, " ") + ")"
	st.env[x] = Val{T: x.Type(), K: KRef, S: s, A: a}
	return true
}

func repeat(s string, n int) []string {
	out := make([]string, n)
	for i := range out {
		out[i] = s
	}
	return out
}

func (c *FnCtx) indexAddr(st *State, x *ssa.IndexAddr) bool {
	xv := c.val(st, x.X)
	iv := c.val(st, x.Index)
	switch t := x.X.Type().Underlying().(type) {
	case *types.Slice:
		c.safety(st, x, "index", fmt.Sprintf("(and (<= 0 %s) (< %s %s))", iv.S, iv.S, xv.Len()), "slice index in range")
		a := &Addr{Space: "M", Key: elemKey(t.Elem()), Idx: []string{xv.Base(), slot(xv.Off(), iv.S)}, T: t.Elem()}
		st.env[x] = Val{T: x.Type(), K: KRef, S: "0", A: a}
	case *types.Pointer:
		at := t.Elem().Underlying().(*types.Array)
		c.safety(st, x, "index", fmt.Sprintf("(and (<= 0 %s) (< %s %d))", iv.S, iv.S, at.Len()), "array index in range")
		base := c.addrOfPointer(xv)
		if base == nil || base.Space != "M" {
			c.note("index of array inside struct abstracted")
			r := c.allocRef(st, "arrcell")
			st.env[x] = scalar(x.Type(), r)
			return true
		}
		a := &Addr{Space: "M", Key: elemKey(at.Elem()), Idx: []string{base.Idx[0], iv.S}, T: at.Elem()}
		st.env[x] = Val{T: x.Type(), K: KRef, S: "0", A: a}
	default:
		c.errs = append(c.errs, "IndexAddr on unsupported type")
		return false
	}
	return true
}

func (c *FnCtx) doSlice(st *State, x *ssa.Slice) bool {
	xv := c.val(st, x.X)
	var lo, hi, mx string
	if x.Low != nil {
		lo = c.val(st, x.Low).S
	} else {
		lo = "0"
	}
	switch t := x.X.Type().Underlying().(type) {
	case *types.Slice:
		if x.High != nil {
			hi = c.val(st, x.High).S
		} else {
			hi = xv.Len()
		}
		mx = xv.Cap()
		if x.Max != nil {
			mx = c.val(st, x.Max).S
			c.safety(st, x, "slice", fmt.Sprintf("(<= %s %s)", mx, xv.Cap()), "slice max <= cap")
		}
		c.safety(st, x, "slice", fmt.Sprintf("(and (<= 0 %s) (<= %s %s) (<= %s %s))", lo, lo, hi, hi, mx), "slice bounds 0 <= lo <= hi <= cap")
		noff := plus(xv.Off(), lo)
		if lo != "0" {
			// name the new offset and relate element positions of the sub-slice to positions of
			// the original, so that quantified facts about s transfer to s[lo:]
			o := c.fresh("suboff", "Int")
			st.assume(eq(o, noff))
			st.assume(fmt.Sprintf("(forall ((i Int)) (! (= (at %s i) (at %s (+ %s i))) :pattern ((at %s i))))", o, xv.Off(), lo, o))
			noff = o
		}
		st.env[x] = sliceVal(x.Type(), xv.Base(), noff, minus(hi, lo), minus(mx, lo))
		_ = t
	case *types.Basic: // string
		if x.High != nil {
			hi = c.val(st, x.High).S
		} else {
			hi = "(strlen " + xv.S + ")"
		}
		c.safety(st, x, "slice", fmt.Sprintf("(and (<= 0 %s) (<= %s %s) (<= %s (strlen %s)))", lo, lo, hi, hi, xv.S), "string slice bounds")
		c.declareFun("str_sub", []string{"Int", "Int", "Int"}, "Int")
		r := fmt.Sprintf("(str_sub %s %s %s)", xv.S, lo, hi)
		st.assume(fmt.Sprintf("(= (strlen %s) (- %s %s))", r, hi, lo))
		if x.Low == nil && x.High == nil {
			r = xv.S
		}
		st.env[x] = scalar(x.Type(), r)
	case *types.Pointer: // pointer to array
		at := t.Elem().Underlying().(*types.Array)
		n := fmt.Sprintf("%d", at.Len())
		if x.High != nil {
			hi = c.val(st, x.High).S
		} else {
			hi = n
		}
		c.safety(st, x, "slice", fmt.Sprintf("(and (<= 0 %s) (<= %s %s) (<= %s %s))", lo, lo, hi, hi, n), "array slice bounds")
		base := c.addrOfPointer(xv)
		if base == nil || base.Space != "M" {
			c.note("slice of array inside struct abstracted")
			r := c.allocRef(st, "arrslice")
			st.env[x] = sliceVal(x.Type(), r, "0", minus(hi, lo), minus(n, lo))
			return true
		}
		st.env[x] = sliceVal(x.Type(), base.Idx[0], lo, minus(hi, lo), minus(n, lo))
	default:
		c.errs = append(c.errs, "Slice on unsupported type")
		return false
	}
	return true
}

// ---- maps ---------------------------------------------------------------------------

// keyTerm converts a map key value to one Int term.
func (c *FnCtx) keyTerm(st *State, k Val) string {
	if k.IsScalar() {
		if k.K == KBool {
			return ite(k.S, "1", "0")
		}
		return k.S
	}
	// struct key: pack leaves with an injective function
	var leaves []string
	var sorts []string
	walkLeaves(k, "", func(path string, leaf Val) {
		leaves = append(leaves, leaf.S)
		sorts = append(sorts, leafSort(leaf.K))
	})
	fn := sym("pack|" + typeName(k.T))
	t := "(" + fn + " " + strings.Join(leaves, " ") + ")"
	if c.declared[fn] {
		return t
	}
	c.declareFun(fn, sorts, "Int")
	// injectivity, stated once as a quantified axiom (the key may be built from bound variables of a
	// specification, so per-use ground facts would leave those variables free)
	var bound, names []string
	for i := range leaves {
		n := fmt.Sprintf("x%d", i)
		names = append(names, n)
		bound = append(bound, "("+n+" "+sorts[i]+")")
	}
	app := "(" + fn + " " + strings.Join(names, " ") + ")"
	var eqs []string
	for i := range leaves {
		un := sym(fmt.Sprintf("unpack%d|%s", i, typeName(k.T)))
		c.declareFun(un, []string{"Int"}, sorts[i])
		eqs = append(eqs, eq("("+un+" "+app+")", names[i]))
	}
	body := eqs[0]
	if len(eqs) > 1 {
		body = "(and " + strings.Join(eqs, " ") + ")"
	}
	c.addGlobalFact(fmt.Sprintf("(forall (%s) (! %s :pattern (%s)))", strings.Join(bound, " "), body, app))
	return t
}

func (c *FnCtx) mapFacts(st *State, mapKey, m, k string) {
	d := c.heapGet(st.heap, arrName("D", mapKey, "", "Bool"))
	l := c.heapGet(st.heap, arrName("L", "", "", "Int"))
	st.assume(fmt.Sprintf("(>= (select %s %s) 0)", l, m))
	if k != "" {
		st.assume(fmt.Sprintf("(=> (select (select %s %s) %s) (>= (select %s %s) 1))", d, m, k, l, m))
	}
	st.assume(fmt.Sprintf("(=> (= %s 0) (= (select %s %s) 0))", m, l, m))
}

func (c *FnCtx) lookup(st *State, x *ssa.Lookup) {
	mv := c.val(st, x.X)
	kv := c.val(st, x.Index)
	mt, ok := x.X.Type().Underlying().(*types.Map)
	if !ok {
		// string index
		c.declareFun("str_at", []string{"Int", "Int"}, "Int")
		c.safety(st, x, "index", fmt.Sprintf("(and (<= 0 %s) (< %s (strlen %s)))", kv.S, kv.S, mv.S), "string index in range")
		st.env[x] = scalar(x.Type(), fmt.Sprintf("(str_at %s %s)", mv.S, kv.S))
		return
	}
	key := mapKeyOf(x.X.Type())
	k := c.keyTerm(st, kv)
	c.mapFacts(st, key, mv.S, k)
	d := c.heapGet(st.heap, arrName("D", key, "", "Bool"))
	present := sel2(d, mv.S, k)
	if mv.S == "0" {
		present = "false"
	}
	a := &Addr{Space: "V", Key: key, Idx: []string{mv.S, k}, T: mt.Elem()}
	stored := c.load(st, a)
	c.assumeAllocated(st, stored)
	c.sumFactsAtLookup(st, x.X.Type(), mv.S, k, present, stored)
	zero := zeroVal(mt.Elem())
	val := mergeVals(present, stored, zero)
	if x.CommaOk {
		tt := x.Type().(*types.Tuple)
		st.env[x] = Val{T: tt, K: KTuple, F: []Val{val, boolVal(present)}}
	} else {
		st.env[x] = val
	}
}

// mergeVals builds ite(cond, a, b) leafwise.
func mergeVals(cond string, a, b Val) Val {
	if a.IsScalar() {
		r := a
		r.S = ite(cond, a.S, b.S)
		r.A = nil
		return r
	}
	r := a
	r.F = make([]Val, len(a.F))
	for i := range a.F {
		r.F[i] = mergeVals(cond, a.F[i], b.F[i])
	}
	return r
}

func (c *FnCtx) mapUpdate(st *State, x *ssa.MapUpdate) bool {
	mv := c.val(st, x.Map)
	kv := c.val(st, x.Key)
	vv := c.val(st, x.Value)
	c.safety(st, x, "nilmap", not(eq(mv.S, "0")), "assignment to entry in non-nil map")
	c.mapStore(st, x.Map.Type(), mv.S, kv, vv)
	return true
}

func (c *FnCtx) mapStore(st *State, mapType types.Type, m string, kv, vv Val) {
	key := mapKeyOf(mapType)
	mt := mapType.Underlying().(*types.Map)
	k := c.keyTerm(st, kv)
	c.mapFacts(st, key, m, k)
	dn := arrName("D", key, "", "Bool")
	ln := arrName("L", "", "", "Int")
	d := c.heapGet(st.heap, dn)
	l := c.heapGet(st.heap, ln)
	c.ghostMapHook(st, mapType, m, k, sel2(d, m, k), &vv, "store")
	c.heapSet(st, ln, sto(l, m, ite(sel2(d, m, k), sel(l, m), "(+ "+sel(l, m)+" 1)")))
	c.heapSet(st, dn, sto2(d, m, k, "true"))
	a := &Addr{Space: "V", Key: key, Idx: []string{m, k}, T: mt.Elem()}
	c.store(st, a, vv)
}

func (c *FnCtx) mapDelete(st *State, mapType types.Type, m string, kv Val) {
	key := mapKeyOf(mapType)
	k := c.keyTerm(st, kv)
	c.mapFacts(st, key, m, k)
	dn := arrName("D", key, "", "Bool")
	ln := arrName("L", "", "", "Int")
	d := c.heapGet(st.heap, dn)
	l := c.heapGet(st.heap, ln)
	c.ghostMapHook(st, mapType, m, k, sel2(d, m, k), nil, "delete")
	c.heapSet(st, ln, sto(l, m, ite(sel2(d, m, k), "(- "+sel(l, m)+" 1)", sel(l, m))))
	c.heapSet(st, dn, sto2(d, m, k, "false"))
}


// ---- range / next ------------------------------------------------------------------------

func (c *FnCtx) doRange(frame *Frame, st *State, x *ssa.Range) {
	xv := c.val(st, x.X)
	it := &Iter{Map: xv, Ord: -1}
	if _, ok := x.X.Type().Underlying().(*types.Map); ok {
		it.IsMap = true
		it.MapKey = mapKeyOf(x.X.Type())
		it.V = "((as const (Array Int Bool)) false)"
		it.Count = "0"
		c.mapFacts(st, it.MapKey, xv.S, "")
		it.StartL = sel(c.heapGet(st.heap, arrName("L", "", "", "Int")), xv.S)
		it.StartD = c.fresh("iter.D0", "(Array Int Bool)")
		st.assume(eq(it.StartD, sel(c.heapGet(st.heap, arrName("D", it.MapKey, "", "Bool")), xv.S)))
		it.NoWrite = true // refined at loop entry: no delete on this map type inside the loop
	}
	st.iters[x] = it
	st.env[x] = scalar(x.Type(), "0")
}

func (c *FnCtx) doNext(frame *Frame, st *State, x *ssa.Next) (forkFn, bool) {
	rng, _ := x.Iter.(*ssa.Range)
	it := st.iters[x.Iter]
	tt := x.Type().(*types.Tuple)
	if it == nil || !it.IsMap || rng == nil {
		// string iteration or unknown: havoc
		c.note("range over string abstracted")
		st.env[x] = c.freshVal(st, tt, "next")
		return nil, true
	}
	mt := rng.X.Type().Underlying().(*types.Map)
	m := it.Map.S
	d := c.heapGet(st.heap, arrName("D", it.MapKey, "", "Bool"))
	l := c.heapGet(st.heap, arrName("L", "", "", "Int"))
	ok := c.fresh("next.ok", "Bool")
	// key value
	kval := c.freshVal(st, mt.Key(), "next.k")
	k := c.keyTerm(st, kval)
	// facts when ok: key present and not visited
	st.assume(implies(ok, and(sel2(d, m, k), not(sel(it.V, k)))))
	// facts when !ok: every present key has been visited
	qk := c.fresh("qk", "Int")
	_ = qk
	st.assume(implies(not(ok), fmt.Sprintf("(forall ((k Int)) (=> (select (select %s %s) k) (select %s k)))", d, m, it.V)))
	if it.NoWrite {
		// cardinality facts hold while the ranged map's key set is what it was at range time
		unchanged := eq(sel(d, m), it.StartD)
		st.assume(implies(and(unchanged, not(ok)), eq(it.Count, it.StartL)))
		st.assume(implies(and(unchanged, ok), fmt.Sprintf("(< %s %s)", it.Count, it.StartL)))
	}
	_ = l
	nv := c.fresh("iter.V", "(Array Int Bool)")
	st.assume(eq(nv, ite(ok, sto(it.V, k, "true"), it.V)))
	nc := c.fresh("iter.n", "Int")
	st.assume(eq(nc, ite(ok, "(+ "+it.Count+" 1)", it.Count)))
	it2 := *it
	it2.V, it2.Count = nv, nc
	st.iters[x.Iter] = &it2
	a := &Addr{Space: "V", Key: it.MapKey, Idx: []string{m, k}, T: mt.Elem()}
	vval := c.load(st, a)
	c.assumeAllocated(st, vval)
	c.assumeAllocated(st, kval)
	st.env[x] = Val{T: tt, K: KTuple, F: []Val{boolVal(ok), kval, vval}}
	return nil, true
}

// ---- interfaces ----------------------------------------------------------------------------

func (c *FnCtx) typeID(t types.Type) string {
	n := sym("type:" + typeName(t))
	if !c.declared[n] {
		c.declare(n, "Int")
		c.addGlobalFact("(> " + n + " 0)")
		for o := range c.typeIDs {
			c.addGlobalFact(fmt.Sprintf("(not (= %s %s))", n, o))
		}
		c.typeIDs[n] = true
	}
	return n
}

// declareBox declares the boxing functions of a scalar concrete type with their axioms:
// unbox(box(x)) = x, dyntype(box(x)) = T, box(x) != nil, and box(unbox(v)) = v for values of that type.
func (c *FnCtx) declareBox(t types.Type) (bx, ub string) {
	bx = sym("box|" + typeName(t))
	ub = sym("unbox|" + typeName(t))
	if c.declared[bx] {
		return
	}
	c.declareFun("dyntype", []string{"Int"}, "Int")
	srt := leafSort(kindOf(t))
	c.declareFun(bx, []string{srt}, "Int")
	c.declareFun(ub, []string{"Int"}, srt)
	tid := c.typeID(t)
	c.addGlobalFact(fmt.Sprintf("(forall ((x %s)) (! (and (= (%s (%s x)) x) (= (dyntype (%s x)) %s) (> (%s x) 0)) :pattern ((%s x))))", srt, ub, bx, bx, tid, bx, bx))
	c.addGlobalFact(fmt.Sprintf("(forall ((v Int)) (! (=> (and (not (= v 0)) (= (dyntype v) %s)) (= (%s (%s v)) v)) :pattern ((%s v))))", tid, bx, ub, ub))
	return
}

// zeroBox is the interface value that holds the (only) value of a zero-size struct type.
func (c *FnCtx) zeroBox(t types.Type) string {
	c.declareFun("dyntype", []string{"Int"}, "Int")
	n := sym("zbox|" + typeName(t))
	if !c.declared[n] {
		c.declare(n, "Int")
		c.addGlobalFact("(> " + n + " 0)")
		c.addGlobalFact(eq("(dyntype "+n+")", c.typeID(t)))
	}
	return n
}

func (c *FnCtx) makeInterface(st *State, v Val, it types.Type) Val {
	c.declareFun("dyntype", []string{"Int"}, "Int")
	tid := c.typeID(v.T)
	if v.IsScalar() {
		bx, ub := c.declareBox(v.T)
		t := "(" + bx + " " + v.S + ")"
		st.assume(eq("("+ub+" "+t+")", v.S))
		st.assume(eq("(dyntype "+t+")", tid))
		st.assume("(> " + t + " 0)")
		if c.boxed == nil {
			c.boxed = map[string]Val{}
		}
		c.boxed[t] = v
		return Val{T: it, K: KIface, S: t}
	}
	if v.K == KStruct && len(v.F) == 0 {
		// all values of a zero-size struct type are equal: one interface value per type
		return Val{T: it, K: KIface, S: c.zeroBox(v.T)}
	}
	// composite: box through a fresh cell holding the value
	r := c.allocRef(st, "ifacebox")
	a := &Addr{Space: "C", Key: "box:" + typeName(v.T), Idx: []string{r}, T: v.T}
	c.store(st, a, v)
	st.assume(eq("(dyntype "+r+")", tid))
	if c.boxed == nil {
		c.boxed = map[string]Val{}
	}
	c.boxed[r] = v
	return Val{T: it, K: KIface, S: r}
}

func (c *FnCtx) typeAssert(st *State, x *ssa.TypeAssert) (forkFn, bool) {
	v := c.val(st, x.X)
	c.declareFun("dyntype", []string{"Int"}, "Int")
	at := x.AssertedType
	var okT string
	var res Val
	if types.IsInterface(at) {
		// interface-to-interface: nondeterministic success for non-nil values
		ok := c.fresh("assert.ok", "Bool")
		st.assume(implies(eq(v.S, "0"), not(ok)))
		okT = ok
		res = Val{T: at, K: KIface, S: v.S}
	} else {
		tid := c.typeID(at)
		okT = and(not(eq(v.S, "0")), eq("(dyntype "+v.S+")", tid))
		if kindOf(at) == KStruct || kindOf(at) == KSlice {
			a := &Addr{Space: "C", Key: "box:" + typeName(at), Idx: []string{v.S}, T: at}
			res = c.load(st, a)
		} else {
			bx, ub := c.declareBox(at)
			res = scalar(at, "("+ub+" "+v.S+")")
			st.assume(implies(okT, eq("("+bx+" "+res.S+")", v.S)))
			c.assumeTypeFacts(st, res)
		}
	}
	if x.CommaOk {
		zero := zeroVal(at)
		tt := x.Type().(*types.Tuple)
		st.env[x] = Val{T: tt, K: KTuple, F: []Val{mergeVals(okT, res, zero), boolVal(okT)}}
		return nil, true
	}
	c.safety(st, x, "typeassert", okT, "type assertion succeeds")
	st.env[x] = res
	return nil, true
}

// ---- conversions -------------------------------------------------------------------------------

func (c *FnCtx) convert(st *State, v Val, t types.Type) Val {
	fk, tk := v.K, kindOf(t)
	switch {
	case fk == KInt && tk == KInt:
		fi, _ := intInfoOf(v.T)
		ti, _ := intInfoOf(t)
		if fi == ti || (ti.bits > fi.bits && (ti.signed || !fi.signed)) {
			return scalar(t, v.S)
		}
		return scalar(t, wrapTo(t, v.S))
	case fk == KInt && tk == KFloat, fk == KFloat && tk == KInt, fk == KFloat && tk == KFloat:
		c.note("float conversion abstracted")
		return c.freshVal(st, t, "fconv")
	case fk == KString && tk == KSlice:
		// []byte(s): fresh array with len = strlen
		c.declareFun("str_bytes", []string{"Int"}, "Int")
		r := c.allocRef(st, "bytes")
		n := "(strlen " + v.S + ")"
		sv := sliceVal(t, r, "0", n, n)
		c.note("string<->[]byte conversion: content relation uninterpreted")
		return sv
	case fk == KSlice && tk == KString:
		c.declareFun("bytes_str", []string{"Int", "Int", "Int", "(Array Int Int)"}, "Int")
		et := v.T.Underlying().(*types.Slice).Elem()
		arr := c.heapGet(st.heap, arrName("M", elemKey(et), "", "Int"))
		r := fmt.Sprintf("(bytes_str %s %s %s)", v.Off(), v.Len(), sel(arr, v.Base()))
		r = strings.Replace(r, "(bytes_str ", "(bytes_str 0 ", 1)
		s := c.fresh("str", "Int")
		st.assume(eq(s, r))
		st.assume(eq("(strlen "+s+")", v.Len()))
		return scalar(t, s)
	case fk == KInt && tk == KString:
		return c.freshVal(st, t, "runestr")
	case tk == KRef || tk == KIface || tk == KString || tk == KArray || tk == KOpaque:
		return retype(v, t)
	case fk == KSlice && tk == KSlice:
		return retype(v, t)
	}
	c.note(fmt.Sprintf("conversion %s -> %s abstracted", shortTypeName(v.T), shortTypeName(t)))
	return c.freshVal(st, t, "conv")
}

// ---- binary operators -----------------------------------------------------------------------------

func (c *FnCtx) binop(st *State, in ssa.Instruction, op token.Token, a, b Val, rt types.Type) Val {
	switch op {
	case token.EQL, token.NEQ:
		e := valEq(a, b)
		if op == token.NEQ {
			e = not(e)
		}
		return boolVal(e)
	}
	k := a.K
	if k == KFloat {
		switch op {
		case token.LSS, token.LEQ, token.GTR, token.GEQ:
			c.declareFun("float_lt", []string{"Int", "Int"}, "Bool")
			c.note("float comparison uninterpreted")
			switch op {
			case token.LSS:
				return boolVal("(float_lt " + a.S + " " + b.S + ")")
			case token.GTR:
				return boolVal("(float_lt " + b.S + " " + a.S + ")")
			case token.LEQ:
				return boolVal(not("(float_lt " + b.S + " " + a.S + ")"))
			default:
				return boolVal(not("(float_lt " + a.S + " " + b.S + ")"))
			}
		}
		c.note("float arithmetic uninterpreted")
		return c.freshVal(st, rt, "fop")
	}
	if k == KString {
		switch op {
		case token.ADD:
			c.declareFun("str_concat", []string{"Int", "Int"}, "Int")
			r := "(str_concat " + a.S + " " + b.S + ")"
			st.assume(fmt.Sprintf("(= (strlen %s) (+ (strlen %s) (strlen %s)))", r, a.S, b.S))
			return scalar(rt, r)
		case token.LSS, token.LEQ, token.GTR, token.GEQ:
			c.declareFun("str_lt", []string{"Int", "Int"}, "Bool")
			c.note("string ordering uninterpreted")
			switch op {
			case token.LSS:
				return boolVal("(str_lt " + a.S + " " + b.S + ")")
			case token.GTR:
				return boolVal("(str_lt " + b.S + " " + a.S + ")")
			case token.LEQ:
				return boolVal(not("(str_lt " + b.S + " " + a.S + ")"))
			default:
				return boolVal(not("(str_lt " + a.S + " " + b.S + ")"))
			}
		}
	}
	if k == KBool {
		switch op {
		case token.AND, token.LAND:
			return boolVal(and(a.S, b.S))
		case token.OR, token.LOR:
			return boolVal(or(a.S, b.S))
		}
	}
	switch op {
	case token.LSS:
		return boolVal("(< " + a.S + " " + b.S + ")")
	case token.LEQ:
		return boolVal("(<= " + a.S + " " + b.S + ")")
	case token.GTR:
		return boolVal("(> " + a.S + " " + b.S + ")")
	case token.GEQ:
		return boolVal("(>= " + a.S + " " + b.S + ")")
	case token.ADD:
		return scalar(rt, wrapAddSub(rt, "(+ "+a.S+" "+b.S+")"))
	case token.SUB:
		return scalar(rt, wrapAddSub(rt, "(- "+a.S+" "+b.S+")"))
	case token.MUL:
		return scalar(rt, wrapTo(rt, c.mulTerm(a.S, b.S)))
	case token.QUO:
		c.safety(st, in, "divzero", not(eq(b.S, "0")), "division by non-zero")
		return scalar(rt, wrapAddSub(rt, goDiv(a.S, b.S)))
	case token.REM:
		c.safety(st, in, "divzero", not(eq(b.S, "0")), "modulo by non-zero")
		return scalar(rt, goRem(a.S, b.S))
	case token.SHL, token.SHR:
		if n, ok := smallConst(b.S); ok && n < 63 {
			p := pow2str(n)
			if op == token.SHL {
				return scalar(rt, wrapTo(rt, "(* "+a.S+" "+p+")"))
			}
			return scalar(rt, "(div "+a.S+" "+p+")")
		}
		c.note("shift by non-constant abstracted")
		return c.freshVal(st, rt, "shift")
	case token.AND:
		if n, ok := smallConst(b.S); ok && isMask(n) {
			r := "(mod " + a.S + " " + fmt.Sprintf("%d", n+1) + ")"
			return scalar(rt, r)
		}
		c.note("bitwise and abstracted")
		r := c.freshVal(st, rt, "band")
		if ii, ok := intInfoOf(rt); ok && !ii.signed {
			st.assume("(<= " + r.S + " " + a.S + ")")
			st.assume("(<= " + r.S + " " + b.S + ")")
		}
		return r
	case token.OR, token.XOR, token.AND_NOT:
		c.note("bitwise op abstracted")
		return c.freshVal(st, rt, "bitop")
	}
	c.errs = append(c.errs, "unsupported binary op "+op.String())
	return c.freshVal(st, rt, "binop")
}

func smallConst(s string) (int64, bool) {
	var n int64
	if _, err := fmt.Sscanf(s, "%d", &n); err == nil && fmt.Sprintf("%d", n) == s {
		return n, true
	}
	return 0, false
}

func isMask(n int64) bool { return n > 0 && (n&(n+1)) == 0 }

func pow2str(n int64) string {
	r := int64(1)
	for i := int64(0); i < n; i++ {
		r *= 2
	}
	return fmt.Sprintf("%d", r)
}

// goDiv is Go's truncated division expressed with SMT floor division.
func goDiv(a, b string) string {
	return fmt.Sprintf("(let ((da %s) (db %s)) (ite (>= da 0) (ite (> db 0) (div da db) (- (div da (- db)))) (ite (> db 0) (- (div (- da) db)) (div (- da) (- db)))))", a, b)
}

func goRem(a, b string) string {
	return fmt.Sprintf("(let ((ra %s) (rb %s)) (ite (>= ra 0) (mod ra (ite (> rb 0) rb (- rb))) (- (mod (- ra) (ite (> rb 0) rb (- rb))))))", a, b)
}

// valEq is structural equality of two values.
func valEq(a, b Val) string {
	if a.IsScalar() && b.IsScalar() {
		return eq(a.S, b.S)
	}
	if a.K == KSlice && b.K == KSlice {
		// only comparison with nil is legal Go; in specifications == is identity of the slice header
		if b.Base() == "0" {
			return eq(a.Base(), "0")
		}
		if a.Base() == "0" {
			return eq(b.Base(), "0")
		}
		return and(eq(a.Base(), b.Base()), eq(a.Off(), b.Off()), eq(a.Len(), b.Len()), eq(a.Cap(), b.Cap()))
	}
	if a.K == KSlice && b.IsScalar() {
		return eq(a.Base(), "0")
	}
	if b.K == KSlice && a.IsScalar() {
		return eq(b.Base(), "0")
	}
	if len(a.F) != len(b.F) {
		return "false"
	}
	var parts []string
	for i := range a.F {
		parts = append(parts, valEq(a.F[i], b.F[i]))
	}
	return and(parts...)
}

// sentinelFacts: a package-level error variable that is only assigned during package
// initialisation from errors.New / fmt.Errorf is non-nil, and distinct from the other such
// sentinels (errors.New returns a distinct pointer each time).
func (c *FnCtx) sentinelFacts(st *State, g *ssa.Global, v Val) {
	if v.K != KIface || !types.Identical(g.Type().(*types.Pointer).Elem(), types.Universe.Lookup("error").Type()) {
		return
	}
	external := g.Pkg != nil && !strings.HasPrefix(g.Pkg.Pkg.Path(), modulePath)
	if external {
		// exported error sentinels of the standard library / dependencies (io.EOF, os.ErrNotExist …)
		// are assumed non-nil; their distinctness is not assumed
		if g.Object() != nil && g.Object().Exported() && (strings.HasPrefix(g.Name(), "Err") || g.Name() == "EOF") {
			st.assume(not(eq(v.S, "0")))
			c.note("exported error sentinels of dependencies (e.g. " + g.Pkg.Pkg.Path() + "." + g.Name() + ") are assumed non-nil")
		}
		return
	}
	if !c.eng.initOnlyGlobal(g) || !c.eng.initFromErrorsNew(g) {
		return
	}
	st.assume(not(eq(v.S, "0")))
	// created during package initialisation: older than anything allocated by the function
	st.assume(sel(sym("alloc@0"), v.S))
	for og, ov := range c.sentinels {
		if og != g {
			st.assume(not(eq(v.S, ov)))
		}
	}
	c.sentinels[g] = v.S
	c.note("error sentinels assigned once at package initialisation are non-nil and pairwise distinct")
}
