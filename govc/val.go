package main

// Symbolic values and the mapping from Go types to SMT representation.
//
// Every Go value is a tree whose leaves are SMT terms of sort Int or Bool:
//   ints, strings, pointers, maps, chans, funcs, interfaces, arrays, floats -> one Int leaf
//   bool                                                                -> one Bool leaf
//   struct                                                              -> one subtree per field
//   slice                                                               -> (base, off, len, cap), four Int leaves
//   tuple                                                               -> one subtree per element

import (
	"fmt"
	"go/types"
	"strings"
)

type Kind int

const (
	KInt Kind = iota
	KBool
	KString
	KFloat
	KRef // pointer, map, chan, func, unsafe pointer
	KIface
	KArray  // opaque value
	KOpaque // opaque scalar (time.Time …)
	KStruct
	KSlice
	KTuple
	KInvalid
)

// Opaque struct types that are modelled as one integer (see externs).
var opaqueTypes = map[string]bool{
	"time.Time":     true,
	"time.Location": true,
}

func typeName(t types.Type) string {
	return types.TypeString(t, func(p *types.Package) string { return p.Path() })
}

func shortTypeName(t types.Type) string {
	return types.TypeString(t, func(p *types.Package) string { return p.Name() })
}

func kindOf(t types.Type) Kind {
	if t == nil {
		return KInvalid
	}
	if opaqueTypes[typeName(t)] {
		return KOpaque
	}
	switch u := t.Underlying().(type) {
	case *types.Basic:
		switch {
		case u.Info()&types.IsBoolean != 0:
			return KBool
		case u.Info()&types.IsInteger != 0:
			return KInt
		case u.Info()&types.IsString != 0:
			return KString
		case u.Info()&types.IsFloat != 0, u.Info()&types.IsComplex != 0:
			return KFloat
		case u.Kind() == types.UnsafePointer:
			return KRef
		case u.Kind() == types.UntypedNil:
			return KRef
		}
		return KInvalid
	case *types.Pointer, *types.Map, *types.Chan, *types.Signature:
		return KRef
	case *types.Interface:
		return KIface
	case *types.Array:
		return KArray
	case *types.Struct:
		return KStruct
	case *types.Slice:
		return KSlice
	case *types.Tuple:
		return KTuple
	case *types.TypeParam:
		return KIface
	}
	return KInvalid
}

// Val is a symbolic value.
type Val struct {
	T types.Type
	K Kind
	S string // leaf term (scalar kinds)
	F []Val  // struct fields, slice parts (base, off, len, cap), tuple elements
	A *Addr  // for pointer-typed SSA values that are addresses of locations
}

// Addr is an executor-level address: a location in the symbolic heap.
type Addr struct {
	Space string   // "F" field of heap object, "C" cell, "M" slice memory, "V" map value, "G" global
	Key   string   // container type key (struct type name / elem type / map type / global name)
	Idx   []string // index terms: F,C: [ref]; M: [base, index]; V: [map, key]; G: []
	Path  string   // leaf path prefix inside the container element
	T     types.Type
}

func (v Val) IsScalar() bool { return v.K != KStruct && v.K != KSlice && v.K != KTuple }

func scalar(t types.Type, s string) Val { return Val{T: t, K: kindOf(t), S: s} }
func boolVal(s string) Val              { return Val{T: types.Typ[types.Bool], K: KBool, S: s} }
func intVal(s string) Val               { return Val{T: types.Typ[types.Int], K: KInt, S: s} }

func sliceVal(t types.Type, base, off, ln, cp string) Val {
	it := types.Typ[types.Int]
	return Val{T: t, K: KSlice, F: []Val{scalar(it, base), scalar(it, off), scalar(it, ln), scalar(it, cp)}}
}

func (v Val) Base() string { return v.F[0].S }
func (v Val) Off() string  { return v.F[1].S }
func (v Val) Len() string  { return v.F[2].S }
func (v Val) Cap() string  { return v.F[3].S }

// leafSort returns the SMT sort of a scalar kind.
func leafSort(k Kind) string {
	if k == KBool {
		return "Bool"
	}
	return "Int"
}

// Leaf describes one SMT leaf of a Go type.
type Leaf struct {
	Path string
	Sort string
	T    types.Type
}

var leavesCache = map[string][]Leaf{}

// leavesOf enumerates the leaves of a type with their path names.
func leavesOf(t types.Type) []Leaf {
	key := typeName(t)
	if l, ok := leavesCache[key]; ok {
		return l
	}
	var out []Leaf
	var rec func(t types.Type, path string, depth int)
	rec = func(t types.Type, path string, depth int) {
		switch kindOf(t) {
		case KStruct:
			st := t.Underlying().(*types.Struct)
			for i := 0; i < st.NumFields(); i++ {
				f := st.Field(i)
				rec(f.Type(), joinPath(path, f.Name()), depth+1)
			}
			if st.NumFields() == 0 {
				// no leaves
			}
		case KSlice:
			it := types.Typ[types.Int]
			for _, p := range []string{"#base", "#off", "#len", "#cap"} {
				out = append(out, Leaf{joinPath(path, p), "Int", it})
			}
		case KTuple:
			tt := t.(*types.Tuple)
			for i := 0; i < tt.Len(); i++ {
				rec(tt.At(i).Type(), joinPath(path, fmt.Sprintf("#%d", i)), depth+1)
			}
		default:
			out = append(out, Leaf{path, leafSort(kindOf(t)), t})
		}
	}
	rec(t, "", 0)
	leavesCache[key] = out
	return out
}

func joinPath(a, b string) string {
	if a == "" {
		return b
	}
	if b == "" {
		return a
	}
	return a + "." + b
}

// buildVal constructs a Val of type t whose leaves come from gen(path, leaf).
func buildVal(t types.Type, path string, gen func(path string, sort string, t types.Type) string) Val {
	switch kindOf(t) {
	case KStruct:
		st := t.Underlying().(*types.Struct)
		v := Val{T: t, K: KStruct}
		for i := 0; i < st.NumFields(); i++ {
			f := st.Field(i)
			v.F = append(v.F, buildVal(f.Type(), joinPath(path, f.Name()), gen))
		}
		return v
	case KSlice:
		it := types.Typ[types.Int]
		v := Val{T: t, K: KSlice}
		for _, p := range []string{"#base", "#off", "#len", "#cap"} {
			v.F = append(v.F, scalar(it, gen(joinPath(path, p), "Int", it)))
		}
		return v
	case KTuple:
		tt := t.(*types.Tuple)
		v := Val{T: t, K: KTuple}
		for i := 0; i < tt.Len(); i++ {
			v.F = append(v.F, buildVal(tt.At(i).Type(), joinPath(path, fmt.Sprintf("#%d", i)), gen))
		}
		return v
	default:
		return scalar(t, gen(path, leafSort(kindOf(t)), t))
	}
}

// walkLeaves calls f for every leaf of v with its path.
func walkLeaves(v Val, path string, f func(path string, leaf Val)) {
	switch v.K {
	case KStruct:
		st := v.T.Underlying().(*types.Struct)
		for i := range v.F {
			walkLeaves(v.F[i], joinPath(path, st.Field(i).Name()), f)
		}
	case KSlice:
		for i, p := range []string{"#base", "#off", "#len", "#cap"} {
			f(joinPath(path, p), v.F[i])
		}
	case KTuple:
		for i := range v.F {
			walkLeaves(v.F[i], joinPath(path, fmt.Sprintf("#%d", i)), f)
		}
	default:
		f(path, v)
	}
}

// ---- integer ranges ----------------------------------------------------

type intInfo struct {
	bits   int
	signed bool
}

func intInfoOf(t types.Type) (intInfo, bool) {
	b, ok := t.Underlying().(*types.Basic)
	if !ok || b.Info()&types.IsInteger == 0 {
		return intInfo{}, false
	}
	switch b.Kind() {
	case types.Int, types.Int64, types.UntypedInt:
		return intInfo{64, true}, true
	case types.Int32, types.UntypedRune:
		return intInfo{32, true}, true
	case types.Int16:
		return intInfo{16, true}, true
	case types.Int8:
		return intInfo{8, true}, true
	case types.Uint, types.Uint64, types.Uintptr:
		return intInfo{64, false}, true
	case types.Uint32:
		return intInfo{32, false}, true
	case types.Uint16:
		return intInfo{16, false}, true
	case types.Uint8:
		return intInfo{8, false}, true
	}
	return intInfo{64, true}, true
}

var pow2 = map[int]string{
	7: "128", 8: "256", 15: "32768", 16: "65536", 31: "2147483648", 32: "4294967296",
	63: "9223372036854775808", 64: "18446744073709551616",
}

func (ii intInfo) minMax() (string, string) {
	if ii.signed {
		return "(- " + pow2[ii.bits-1] + ")", "(- " + pow2[ii.bits-1] + " 1)"
	}
	return "0", "(- " + pow2[ii.bits] + " 1)"
}

// rangeFact returns the SMT fact that term s is in the range of integer type t ("" if none).
func rangeFact(t types.Type, s string) string {
	ii, ok := intInfoOf(t)
	if !ok || kindOf(t) != KInt {
		return ""
	}
	if b, isB := t.(*types.Basic); isB && b.Kind() == types.UntypedInt {
		return "" // mathematical integer (spec values, ghost fields)
	}
	lo, hi := ii.minMax()
	return fmt.Sprintf("(and (<= %s %s) (<= %s %s))", lo, s, s, hi)
}

// wrap returns term s reduced into the range of t (exact machine semantics).
func wrapTo(t types.Type, s string) string {
	ii, ok := intInfoOf(t)
	if !ok {
		return s
	}
	m := pow2[ii.bits]
	if ii.signed {
		h := pow2[ii.bits-1]
		// ((s + h) mod m) - h
		return fmt.Sprintf("(- (mod (+ %s %s) %s) %s)", s, h, m, h)
	}
	return fmt.Sprintf("(mod %s %s)", s, m)
}

// wrapAddSub: cheaper wrap for a result known to be within one modulus of the range.
func wrapAddSub(t types.Type, s string) string {
	ii, ok := intInfoOf(t)
	if !ok {
		return s
	}
	lo, hi := ii.minMax()
	m := pow2[ii.bits]
	return fmt.Sprintf("(let ((wx %s)) (ite (> wx %s) (- wx %s) (ite (< wx %s) (+ wx %s) wx)))", s, hi, m, lo, m)
}

// ---- misc term helpers -------------------------------------------------

func and(xs ...string) string {
	var ys []string
	for _, x := range xs {
		if x == "" || x == "true" {
			continue
		}
		if x == "false" {
			return "false"
		}
		ys = append(ys, x)
	}
	switch len(ys) {
	case 0:
		return "true"
	case 1:
		return ys[0]
	}
	return "(and " + strings.Join(ys, " ") + ")"
}

func or(xs ...string) string {
	var ys []string
	for _, x := range xs {
		if x == "" || x == "false" {
			continue
		}
		if x == "true" {
			return "true"
		}
		ys = append(ys, x)
	}
	switch len(ys) {
	case 0:
		return "false"
	case 1:
		return ys[0]
	}
	return "(or " + strings.Join(ys, " ") + ")"
}

func not(x string) string {
	switch x {
	case "true":
		return "false"
	case "false":
		return "true"
	}
	if strings.HasPrefix(x, "(not ") && balanced(x[5:len(x)-1]) {
		return x[5 : len(x)-1]
	}
	return "(not " + x + ")"
}

func balanced(s string) bool {
	d := 0
	for _, c := range s {
		if c == '(' {
			d++
		} else if c == ')' {
			d--
			if d < 0 {
				return false
			}
		}
	}
	return d == 0
}

func implies(a, b string) string {
	if a == "true" {
		return b
	}
	if a == "false" || b == "true" {
		return "true"
	}
	return "(=> " + a + " " + b + ")"
}

func eq(a, b string) string {
	if a == b {
		return "true"
	}
	return "(= " + a + " " + b + ")"
}

func ite(c, a, b string) string {
	if c == "true" {
		return a
	}
	if c == "false" {
		return b
	}
	return "(ite " + c + " " + a + " " + b + ")"
}

func sel(a, i string) string      { return "(select " + a + " " + i + ")" }
func sto(a, i, v string) string   { return "(store " + a + " " + i + " " + v + ")" }
func sel2(a, i, j string) string  { return sel(sel(a, i), j) }
func sto2(a, i, j, v string) string { return sto(a, i, sto(sel(a, i), j, v)) }

func smtInt(n int64) string {
	if n < 0 {
		return fmt.Sprintf("(- %d)", -n)
	}
	return fmt.Sprintf("%d", n)
}

// sanitize makes a string usable inside a |quoted| SMT symbol.
func sanitize(s string) string {
	r := strings.NewReplacer("|", "!", "\\", "!", "\n", " ")
	return r.Replace(s)
}

func sym(s string) string { return "|" + sanitize(s) + "|" }
