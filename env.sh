# Offline Go environment shared by setup.sh and check (see DESIGN §3.2).
TC=/root/go/pkg/mod/golang.org/toolchain@v0.0.1-go1.24.0.linux-amd64/bin
if [ -d "$TC" ]; then PATH="$TC:$PATH"; GOTOOLCHAIN=local; else GOTOOLCHAIN=auto; fi
export PATH GOTOOLCHAIN GOFLAGS=-mod=mod GOPROXY=off GOSUMDB=off GONOSUMDB='*' GONOSUMCHECK=1 GOFLAGS
