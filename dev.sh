#!/bin/sh
# dev.sh <pkgs> <fns> [flags]: development driver (verify named functions, print every obligation)
HERE="$(cd "$(dirname "$0")" && pwd)"
. "$HERE/env.sh"
(cd "$HERE/govc" && go build -o "$HERE/bin/govc" .) || exit 2
S="$(mktemp -d /tmp/govcdev.XXXXXX)"; trap 'rm -rf "$S"' EXIT
REPO="${VERIF_REPO:-/repo}"
cp "$REPO/go.mod" "$S/go.mod"; cp "$REPO/go.sum" "$S/go.sum"
P="$1"; F="$2"; shift 2
"$HERE/bin/govc" verify -repo "$REPO" -pkgs "$P" -fns "$F" -scratch "$S" -modfile "$S/go.mod" "$@"
