#!/usr/bin/env python3
"""Regenerates MANIFEST.json from contracts/properties.json + contracts/manifest_meta.json."""
import json, subprocess
props=[json.loads(l) for l in open('/verif/properties.jsonl')]
cfg=json.load(open('/verif/contracts/properties.json'))
meta=json.load(open('/verif/contracts/manifest_meta.json'))
hooks=subprocess.run(['git','-C','/repo','log','--format=%h %s'],capture_output=True,text=True).stdout.splitlines()
hook_commits=[l.split()[0] for l in hooks if l.split(' ',1)[1].startswith('verif:')]
checks=[]; na=[]
for p in props:
    pid=p['id']
    if pid in cfg and pid in meta.get('claimed',{}):
        m=meta['claimed'][pid]
        checks.append({"property_id":pid,"quick_cmd":f"./check {pid} quick","thorough_cmd":f"./check {pid} thorough",
          "evidence_file":f"/verif/evidence/{pid}.json","replay_cmd_template":"cat {path}","engine":"govc",
          "level_claimed":{"category":"proof","text":m["text"],"design_ref":f"DESIGN.md §4 {pid}"},
          "level_note":m["note"],"technique":m.get("technique","contract-based deductive verification: SMT-discharged weakest-precondition obligations over go/ssa of the real code")})
    else:
        na.append({"property_id":pid,"reason":meta['not_applicable'].get(pid,"technique applies (DESIGN.md §4) but the obligations were not brought to a stable discharge in this effort")})
man={"version":1,"setup_cmd":"./setup.sh",
 "hooks":{"guard":"verif","enable":"contracts are comment-only files zz_contracts_verif.go behind //go:build verif; govc loads /repo with -tags=verif",
   "baseline_off_cmd":"cd /repo && go test -mod=mod -vet=off -count=1 -timeout 25m ./...","source_commits":hook_commits,"add_only":True},
 "engines":[{"name":"govc","path":"/verif/govc","serves_properties":[c["property_id"] for c in checks],
   "kind_free_text":"verification-condition generator for Go: contracts (requires/ensures/invariant/modifies/lockinv/nopanic) as structured comments, forward symbolic execution of go/ssa, obligations discharged by z3 5.1.0 / z3 4.8.12 / cvc5 1.0.3"}],
 "checks":checks,"notes":meta.get("notes",""),"not_applicable":na}
json.dump(man,open('/verif/MANIFEST.json','w'),indent=1)
print(len(checks),"checks,",len(na),"not applicable")
